(* Proofs about Model/JsonMeta.v (property C08): uuid text, metadata and comments round trip, the FilenameData node. *)
From GV Require Import Prelude.Base Model.Codec Model.JsonMeta Proofs.CodecProofs.

(* ------------------------------------------------------------------ the braced uuid text parses back *)
Local Open Scope N_scope.

Definition hexchar (c : N) : Prop := (48 <= c /\ c <= 57) \/ (97 <= c /\ c <= 102).

Lemma hexval_hexdigit d : d < 16 -> hexval (hexdigit d) = Some d.
Proof.
  intros H. unfold hexval, hexdigit. destruct (N.ltb_spec d 10).
  - destruct (N.leb_spec 48 (48 + d)); [|lia]. destruct (N.leb_spec (48 + d) 57); [|lia]. cbn [andb]. f_equal. lia.
  - destruct (N.leb_spec 48 (87 + d)); [|lia]. destruct (N.leb_spec (87 + d) 57); [lia|]. cbn [andb].
    destruct (N.leb_spec 97 (87 + d)); [|lia]. destruct (N.leb_spec (87 + d) 102); [|lia]. cbn [andb]. f_equal. lia.
Qed.

Lemma hexchar_hexdigit d : d < 16 -> hexchar (hexdigit d).
Proof. intros H. unfold hexchar, hexdigit. destruct (N.ltb_spec d 10); lia. Qed.

Lemma hex_digits_length k : forall u acc, length (hex_digits k u acc) = (k + length acc)%nat.
Proof. induction k; intros u acc; simpl; [reflexivity|]. rewrite IHk. simpl. lia. Qed.

Lemma hex_digits_chars k : forall u acc, Forall hexchar acc -> Forall hexchar (hex_digits k u acc).
Proof.
  induction k; intros u acc H; simpl; [assumption|]. apply IHk. constructor; [|assumption].
  apply hexchar_hexdigit. apply N.mod_lt. discriminate.
Qed.

Lemma hex_parse_digits k : forall u acc a,
  hex_parse (hex_digits k u acc) a = hex_parse acc (a * 16 ^ N.of_nat k + u mod 16 ^ N.of_nat k).
Proof.
  induction k; intros u acc a.
  - simpl. rewrite N.mod_1_r, N.mul_1_r, N.add_0_r. reflexivity.
  - cbn [hex_digits]. rewrite IHk. cbn [hex_parse]. rewrite hexval_hexdigit by (apply N.mod_lt; discriminate).
    f_equal. rewrite Nat2N.inj_succ, N.pow_succ_r'.
    rewrite (N.mod_mul_r u 16 (16 ^ N.of_nat k)) by (try discriminate; apply N.pow_nonzero; discriminate).
    lia.
Qed.

Lemma remove_no_head fuel p0 p : forall s, ~ In p0 s -> remove fuel (p0 :: p) s = s.
Proof.
  induction fuel; intros s H; [reflexivity|]. destruct s as [|c r]; [reflexivity|]. cbn [remove strip_prefix].
  destruct (N.eqb_spec p0 c) as [->|Hne]; [exfalso; apply H; left; reflexivity|].
  rewrite IHfuel by (intros E; apply H; right; assumption). reflexivity.
Qed.

Lemma rstrip_keep drop t : Forall (fun c => drop c = false) t -> rstrip drop t = t.
Proof.
  unfold rstrip. induction 1 as [|c r Hc Hr IH]; simpl; [reflexivity|]. rewrite IH.
  destruct r; [rewrite Hc|]; reflexivity.
Qed.

Lemma rstrip_app_dropped drop t c : drop c = true -> rstrip drop (t ++ [c]) = rstrip drop t.
Proof. intros H. unfold rstrip. rewrite fold_right_app. simpl. rewrite H. reflexivity. Qed.

Lemma filter_id {A} (P : A -> bool) l : Forall (fun c => P c = true) l -> filter P l = l.
Proof. induction 1 as [|c r Hc Hr IH]; simpl; [reflexivity|]. rewrite Hc, IH. reflexivity. Qed.

Lemma Forall_firstn {A} (P : A -> Prop) n : forall l, Forall P l -> Forall P (firstn n l).
Proof. induction n; intros l H; simpl; [constructor|]. destruct H; constructor; auto. Qed.

Lemma Forall_skipn {A} (P : A -> Prop) n : forall l, Forall P l -> Forall P (skipn n l).
Proof. induction n; intros l H; simpl; [assumption|]. destruct H; [constructor | auto]. Qed.

Lemma hexchar_facts c : hexchar c -> c <> 117 /\ is_brace c = false /\ not_hyphen c = true.
Proof.
  unfold hexchar, is_brace, not_hyphen, c_lbrace, c_rbrace, c_hyphen. intros H. split; [lia|]. split.
  - apply orb_false_iff. split; apply N.eqb_neq; lia.
  - apply negb_true_iff, N.eqb_neq. lia.
Qed.

Lemma undash (ds : str) : length ds = 32%nat ->
  firstn 8 ds ++ firstn 4 (skipn 8 ds) ++ firstn 4 (skipn 12 ds) ++ firstn 4 (skipn 16 ds) ++ skipn 20 ds = ds.
Proof.
  intros H. do 32 (destruct ds as [|? ds]; [discriminate H|]). destruct ds; [reflexivity | discriminate H].
Qed.

Lemma Forall_dashed (P : N -> Prop) ds : Forall P ds -> P c_hyphen -> Forall P (dashed ds).
Proof.
  intros H Hh. unfold dashed.
  repeat (apply Forall_app; split; [apply Forall_firstn; try apply Forall_skipn; assumption|]; constructor; [assumption|]).
  apply Forall_skipn. assumption.
Qed.

Lemma filter_hyphen_cons l : filter not_hyphen (c_hyphen :: l) = filter not_hyphen l.
Proof. reflexivity. Qed.

Lemma filter_dashed ds : Forall hexchar ds -> length ds = 32%nat -> filter not_hyphen (dashed ds) = ds.
Proof.
  intros Hch Hlen.
  assert (Forall (fun c => not_hyphen c = true) ds) as Hnh by (eapply Forall_impl; [|exact Hch]; intros c Hc; apply hexchar_facts; assumption).
  unfold dashed.
  rewrite !filter_app, !filter_hyphen_cons, !filter_app, !filter_hyphen_cons, !filter_app, !filter_hyphen_cons, !filter_app, !filter_hyphen_cons.
  rewrite !filter_id by (try apply Forall_firstn; try apply Forall_skipn; assumption).
  apply undash. assumption.
Qed.

Lemma hexchar_more c : hexchar c -> is_space c = false /\ c <> 45 /\ c <> 43 /\ c <> 120 /\ c <> 88 /\ (c =? 95) = false.
Proof.
  unfold hexchar, is_space. intros H. split; [|repeat split; try lia; apply N.eqb_neq; lia].
  destruct (N.leb_spec c 13); [lia|]. destruct (N.leb_spec c 32); [lia|]. rewrite !andb_false_r. reflexivity.
Qed.

Lemma hex_us_hexchars ds : Forall hexchar ds -> forall acc b, ds <> [] -> hex_us ds acc b = hex_parse ds acc.
Proof.
  induction 1 as [|c r Hc Hr IH]; intros acc b Hne; [congruence|]. cbn [hex_us hex_parse].
  destruct (hexchar_more c Hc) as (_ & _ & _ & _ & _ & ->).
  assert (exists d, hexval c = Some d) as [d ->].
  { unfold hexval, hexchar in *. destruct Hc as [[H1 H2]|[H1 H2]].
    - apply N.leb_le in H1, H2. rewrite H1, H2. cbn [andb]. eauto.
    - destruct ((48 <=? c) && (c <=? 57)); [eauto|]. apply N.leb_le in H1, H2. rewrite H1, H2. cbn [andb]. eauto. }
  destruct r as [|c2 r2]; [reflexivity|]. apply IH. discriminate.
Qed.

Lemma int16_hexchars ds : Forall hexchar ds -> (2 <= length ds)%nat -> int16 ds = hex_parse ds 0.
Proof.
  intros H Hlen. destruct ds as [|c1 [|c2 r]]; try (simpl in Hlen; lia).
  inversion H as [|? ? H1 Hr]; subst. inversion Hr as [|? ? H2 Hr2]; subst.
  destruct (hexchar_more c1 H1) as (S1 & M1 & P1 & _). destruct (hexchar_more c2 H2) as (_ & _ & _ & X2 & X2' & _).
  unfold int16. cbn [lstrip]. rewrite S1.
  rewrite rstrip_keep by (eapply Forall_impl; [|exact H]; intros c Hc; apply hexchar_more; assumption).
  cbv beta iota zeta.
  destruct (N.eqb_spec c1 45); [contradiction|]. destruct (N.eqb_spec c1 43); [contradiction|].
  destruct (N.eqb_spec c2 120); [contradiction|]. destruct (N.eqb_spec c2 88); [contradiction|].
  rewrite andb_false_r.
  apply hex_us_hexchars; [assumption | discriminate].
Qed.
(* every identifier: the text as_str_if_uuid writes is read back as that identifier by uuid.UUID *)
Theorem parse_uuid_braced : forall u, u < 2 ^ 128 -> parse_uuid (uuid_braced u) = Some u.
Proof.
  intros u Hu. unfold uuid_braced. set (ds := hex_digits 32 u []).
  assert (Hlen : length ds = 32%nat) by (unfold ds; rewrite hex_digits_length; reflexivity).
  assert (Hch : Forall hexchar ds) by (apply hex_digits_chars; constructor).
  assert (Hnb : Forall (fun c => is_brace c = false) (dashed ds)).
  { apply Forall_dashed; [|reflexivity]. eapply Forall_impl; [|exact Hch]. intros c Hc. apply hexchar_facts; assumption. }
  assert (Hnu : ~ In 117 (c_lbrace :: dashed ds ++ [c_rbrace])).
  { intros [E|E]; [discriminate E|]. apply in_app_iff in E as [E|[E|[]]]; [|discriminate E].
    assert (Forall (fun c => c <> 117) (dashed ds)) as Hf.
    { apply Forall_dashed; [|discriminate]. eapply Forall_impl; [|exact Hch]. intros c Hc. apply hexchar_facts; assumption. }
    rewrite Forall_forall in Hf. apply (Hf _ E). reflexivity. }
  unfold parse_uuid, uuid_clean. unfold s_urn, s_uuidp. rewrite (remove_no_head _ _ _ _ Hnu), (remove_no_head _ _ _ _ Hnu).
  cbn [lstrip]. change (is_brace c_lbrace) with true. cbv iota.
  assert (lstrip is_brace (dashed ds ++ [c_rbrace]) = dashed ds ++ [c_rbrace]) as ->.
  { destruct (dashed ds) as [|c r] eqn:E; [unfold dashed in E; destruct ds; [discriminate Hlen | discriminate E]|].
    cbn [app lstrip]. inversion Hnb as [|? ? Hc Hr]; subst. rewrite Hc. reflexivity. }
  rewrite rstrip_app_dropped by reflexivity. rewrite rstrip_keep by assumption.
  rewrite filter_dashed by assumption. rewrite Hlen. cbn [Nat.eqb].
  rewrite int16_hexchars by (assumption || (rewrite Hlen; lia)).
  unfold ds. rewrite hex_parse_digits. cbn [hex_parse]. f_equal.
  change (16 ^ N.of_nat 32) with (2 ^ 128). rewrite N.mod_small by assumption. lia.
Qed.

Local Close Scope N_scope.

(* ------------------------------------------------------------------ induction over nested values *)
Section JvInd.
  Variable P : jv -> Prop.
  Hypothesis HNull : P JNull.
  Hypothesis HBool : forall b, P (JBool b).
  Hypothesis HInt : forall z, P (JInt z).
  Hypothesis HFlt : forall f, P (JFlt f).
  Hypothesis HStr : forall s, P (JStr s).
  Hypothesis HUuid : forall u, P (JUuid u).
  Hypothesis HBad : P JBad.
  Hypothesis HList : forall l, Forall P l -> P (JList l).
  Hypothesis HDict : forall d, Forall (fun kv => P (snd kv)) d -> P (JDict d).

  Fixpoint jv_ind' (v : jv) : P v :=
    match v with
    | JNull => HNull | JBool b => HBool b | JInt z => HInt z | JFlt f => HFlt f | JStr s => HStr s | JUuid u => HUuid u
    | JBad => HBad
    | JList l => HList l ((fix go (l : list jv) : Forall P l :=
                             match l with [] => Forall_nil _ | x :: r => Forall_cons x (jv_ind' x) (go r) end) l)
    | JDict d => HDict d ((fix go (d : list (str * jv)) : Forall (fun kv => P (snd kv)) d :=
                             match d with [] => Forall_nil _ | kv :: r => Forall_cons kv (jv_ind' (snd kv)) (go r) end) d)
    end.
End JvInd.

Lemma as_str_plain v : plain v = true -> as_str_if_uuid v = v.
Proof. destruct v; simpl; try reflexivity; discriminate. Qed.

(* dict_mapper changes nothing in a value json.dumps accepts *)
Lemma dmap_plain : forall v, plain v = true -> dmap v = v.
Proof.
  apply (jv_ind' (fun v => plain v = true -> dmap v = v)); try (intros; reflexivity); try (intros; discriminate).
  - intros l _ H. simpl in *. f_equal. induction l as [|x r IH]; [reflexivity|]. simpl in *.
    apply andb_true_iff in H as [Hx Hr]. rewrite as_str_plain, IH by assumption. reflexivity.
  - intros d Hd H. simpl in *. f_equal. induction d as [|[k x] r IH]; [reflexivity|]. simpl in *.
    apply andb_true_iff in H as [Hx Hr]. inversion Hd as [|? ? Hpx Hpr]; subst. simpl in Hpx.
    rewrite Hpx, IH by assumption. reflexivity.
Qed.

(* ------------------------------------------------------------------ metadata round trip *)
Lemma uuid_of_braced u : (u <? 2 ^ 128)%N = true -> str2uuid (JStr (uuid_braced u)) = JUuid u.
Proof. intros H. apply N.ltb_lt in H. unfold str2uuid, uuid_of. rewrite parse_uuid_braced by assumption. reflexivity. Qed.

Lemma slot2_trip y : slot2 y = true -> plain (dmap y) = true /\ str2uuid (dmap y) = y.
Proof.
  destruct y; simpl; intros H; try (split; reflexivity); try discriminate.
  - unfold str2uuid, uuid_of. destruct (parse_uuid (dec_Z z)); [discriminate|]. split; reflexivity.
  - unfold str2uuid, uuid_of. destruct (parse_uuid s); [discriminate|]. split; reflexivity.
  - split; [reflexivity | apply uuid_of_braced; assumption].
  - change (forallb plain l) with (plain (JList l)) in H.
    change (forallb plain (map as_str_if_uuid l)) with (plain (dmap (JList l))).
    change (JList (map as_str_if_uuid l)) with (dmap (JList l)). rewrite dmap_plain by exact H. split; [exact H | reflexivity].
  - change (forallb (fun kv : str * jv => plain (snd kv)) d) with (plain (JDict d)) in H.
    change (forallb (fun kv : str * jv => plain (snd kv)) (map (fun kv : str * jv => (fst kv, dmap (snd kv))) d)) with (plain (dmap (JDict d))).
    change (JDict (map (fun kv : str * jv => (fst kv, dmap (snd kv))) d)) with (dmap (JDict d)). rewrite dmap_plain by exact H.
    split; [exact H | reflexivity].
Qed.

Lemma slot1_trip x : slot1 x = true -> plain (dmap x) = true /\ rmap1 (dmap x) = x.
Proof.
  destruct x; try (intros H; destruct (slot2_trip _ H) as [H1 H2]; split; [exact H1 | exact H2]).
  - (* JDict *) simpl. intros H. induction d as [|[k y] r IH]; [split; reflexivity|]. simpl in *.
    apply andb_true_iff in H as [Hy Hr]. destruct (slot2_trip _ Hy) as [Y1 Y2]. destruct (IH Hr) as [R1 R2].
    rewrite Y1, R1, Y2. split; [reflexivity|]. inversion R2 as [R3]. rewrite R3. rewrite R3. reflexivity.
Qed.

(* every metadata dictionary whose mapped slots hold no uuid look-alike and whose identifiers sit in mapped slots *)
Theorem meta_roundtrip : forall m, meta_ok m = true -> meta_trip m = Ok m.
Proof.
  intros [| | | | | | |d|]; try discriminate. simpl. intros H.
  assert (forallb (fun kv => plain (snd kv)) (map (fun kv => (fst kv, dmap (snd kv))) d) = true
          /\ map (fun kv => (fst kv, rmap1 (snd kv))) (map (fun kv => (fst kv, dmap (snd kv))) d) = d) as [H1 H2].
  { induction d as [|[k x] r IH]; [split; reflexivity|]. simpl in *. apply andb_true_iff in H as [Hx Hr].
    destruct (slot1_trip _ Hx) as [X1 X2]. destruct (IH Hr) as [R1 R2]. rewrite X1, R1, X2, R2. split; reflexivity. }
  rewrite H1. simpl. rewrite H2. reflexivity.
Qed.

(* exactly which strings / integers in a mapped slot come back as something else: those uuid.UUID(str(v)) accepts *)
Theorem meta_slot_value : forall k v,
  plain v = true -> (forall d, v <> JDict d) -> (forall l, v <> JList l) ->
  meta_trip (JDict [(k, v)]) = Ok (JDict [(k, str2uuid v)]).
Proof.
  intros k v Hp Hd Hl.
  destruct v; try discriminate Hp; try reflexivity.
  - exfalso. apply (Hl l). reflexivity.
  - exfalso. apply (Hd d). reflexivity.
Qed.

Theorem meta_string_roundtrip_iff : forall k s,
  meta_trip (JDict [(k, JStr s)]) = Ok (JDict [(k, JStr s)]) <-> parse_uuid s = None.
Proof.
  intros k s. rewrite meta_slot_value by (reflexivity || discriminate). unfold str2uuid, uuid_of.
  destruct (parse_uuid s); split; intros H; try reflexivity; try discriminate.
Qed.

Theorem meta_int_roundtrip_iff : forall k z,
  meta_trip (JDict [(k, JInt z)]) = Ok (JDict [(k, JInt z)]) <-> parse_uuid (dec_Z z) = None.
Proof.
  intros k z. rewrite meta_slot_value by (reflexivity || discriminate). unfold str2uuid, uuid_of.
  destruct (parse_uuid (dec_Z z)); split; intros H; try reflexivity; try discriminate.
Qed.

(* one level down the same mapping applies; two levels down and inside lists nothing is mapped back *)
Theorem meta_nested_string_roundtrip_iff : forall k k2 s,
  meta_trip (JDict [(k, JDict [(k2, JStr s)])]) = Ok (JDict [(k, JDict [(k2, JStr s)])]) <-> parse_uuid s = None.
Proof.
  intros k k2 s. unfold meta_trip, fetch_meta. simpl. unfold str2uuid, uuid_of.
  destruct (parse_uuid s); split; intros H; try reflexivity; try discriminate.
Qed.

Definition meta_full : Prop := forall m m', plain (dmap m) = true -> meta_trip m = Ok m' -> m' = m.

Lemma meta_deep_uuid_not_restored : forall k1 k2 k3 u,
  meta_trip (JDict [(k1, JDict [(k2, JDict [(k3, JUuid u)])])])
  = Ok (JDict [(k1, JDict [(k2, JDict [(k3, JStr (uuid_braced u))])])]).
Proof. reflexivity. Qed.

Lemma meta_list_uuid_not_restored : forall k u,
  meta_trip (JDict [(k, JList [JUuid u])]) = Ok (JDict [(k, JList [JStr (uuid_braced u)])]).
Proof. reflexivity. Qed.

Theorem meta_full_refuted : ~ meta_full.
Proof.
  intros H. specialize (H (JDict [([97]%N, JList [JUuid 5])]) _ eq_refl (meta_list_uuid_not_restored _ _)). discriminate H.
Qed.

Theorem meta_refusals :
  (forall m, (forall d, m <> JDict d) -> m <> JNull -> meta_trip m = Err TypeErr)
  /\ meta_trip JNull = Ok JNull
  /\ (forall d, plain (dmap (JDict d)) = false -> meta_trip (JDict d) = Err TypeErr)
  /\ (forall k u, meta_trip (JDict [(k, JList [JList [JUuid u]])]) = Err TypeErr)
  /\ (forall k, meta_trip (JDict [(k, JBad)]) = Err TypeErr).
Proof.
  repeat split.
  - intros m H Hn. destruct m; try reflexivity; [congruence|]. exfalso. eapply H. reflexivity.
  - intros d H. unfold meta_trip. rewrite H. reflexivity.
Qed.

(* ------------------------------------------------------------------ several assignments: merge, None, refusals *)
Lemma meta_run_single : forall m,
  meta_trip m = match meta_run Repaired mfresh [m] with
                | (st, [None]) => meta_reopen st
                | (_, [Some e]) => Err e
                | _ => Err TypeErr
                end.
Proof.
  intros m. destruct m; try reflexivity. simpl. unfold meta_store.
  destruct (forallb (fun kv => plain (snd kv)) (map (fun kv => (fst kv, dmap (snd kv))) d)) eqn:E; simpl; rewrite ?E; reflexivity.
Qed.

(* a refused assignment changes neither the entity nor the file (repaired code) ... *)
Theorem meta_refusal_atomic : forall st v,
  (forall d, v = JDict d -> plain (dmap v) = false) -> v <> JNull -> meta_assign Repaired st v = (st, Some TypeErr).
Proof.
  intros st v H Hn. destruct v; try reflexivity; [congruence|]. unfold meta_assign. rewrite (H d eq_refl). reflexivity.
Qed.

(* ... REFUTED for the code as shipped: the stored metadata are gone and the entity holds the refused value *)
Definition meta_refusal_atomic_prop (w : ver) : Prop :=
  forall st v e, snd (meta_assign w st v) = Some e -> fst (meta_assign w st v) = st.

Theorem meta_refusal_atomic_old_refuted : ~ meta_refusal_atomic_prop Old.
Proof.
  intros H.
  specialize (H {| mem := Some [([97]%N, JInt 1)]; file := Some (JDict [([97]%N, JInt 1)]) |} (JDict [([98]%N, JBad)]) TypeErr eq_refl).
  discriminate H.
Qed.

Theorem meta_none_clears : forall w st, meta_assign w st JNull = (mfresh, None) /\ meta_reopen mfresh = Ok JNull.
Proof. intros w st. split; reflexivity. Qed.

Lemma plain_dset k v d :
  plain v = true -> forallb (fun kv => plain (snd kv)) d = true -> forallb (fun kv => plain (snd kv)) (dset k v d) = true.
Proof.
  intros Hv. induction d as [|[k' v'] r IH]; simpl; intros H; [rewrite Hv; reflexivity|].
  apply andb_true_iff in H as [H1 H2]. destruct (lN_eqb k k'); simpl; [rewrite Hv, H2 | rewrite H1, IH by assumption]; reflexivity.
Qed.

(* merging: a second dictionary is merged key by key into the first (dict.update), and the merged dictionary is what is
   stored and read back *)
Theorem meta_merge_roundtrip : forall d1 d2,
  plain (dmap (JDict d1)) = true -> plain (dmap (JDict d2)) = true ->
  let m := dupdate d1 d2 in
  meta_ok (JDict m) = true ->
  exists st, meta_run Repaired mfresh [JDict d1; JDict d2] = (st, [None; None])
             /\ mem st = Some m /\ file st = Some (dmap (JDict m)) /\ meta_reopen st = Ok (JDict m).
Proof.
  intros d1 d2 H1 H2 m Hok.
  pose proof (meta_roundtrip (JDict m) Hok) as Hrt. unfold meta_trip in Hrt.
  destruct (plain (dmap (JDict m))) eqn:Hp; [|discriminate Hrt].
  exists {| mem := Some m; file := Some (dmap (JDict m)) |}.
  unfold meta_run, meta_assign, mfresh. cbn [mem]. rewrite H1. unfold meta_store at 1. rewrite H1. cbn [mem]. rewrite H2.
  unfold meta_store. fold m. rewrite Hp. repeat split. exact Hrt.
Qed.

(* ------------------------------------------------------------------ comments *)
Lemma record_ok r : is_record r -> keys_ok r = true /\ plain r = true /\ as_str_if_uuid r = r.
Proof. intros (a & d & t & ->). repeat split. Qed.

Theorem comments_roundtrip : forall l, Forall is_record l -> comments_trip l = Ok l.
Proof.
  intros l H. unfold comments_trip.
  assert (forallb keys_ok l = true /\ map as_str_if_uuid l = l /\ forallb plain l = true) as (H1 & H2 & H3).
  { induction H as [|r l Hr Hl (I1 & I2 & I3)]; [repeat split|]. destruct (record_ok r Hr) as (R1 & R2 & R3).
    simpl. rewrite R1, R2, R3, I1, I2, I3. repeat split. }
  rewrite H1. simpl. rewrite H2, H3. reflexivity.
Qed.

Theorem comments_refusals :
  (forall l r, In r l -> keys_ok r = false -> comments_trip l = Err AssertErr)
  /\ (forall a d u, comments_trip [JDict [(k_Author, JStr a); (k_Date, JStr d); (k_Text, JUuid u)]] = Err TypeErr).
Proof.
  split; [|reflexivity]. intros l r Hin Hk. unfold comments_trip.
  rewrite (forallb_false_in keys_ok l r Hin Hk). reflexivity.
Qed.

(* ------------------------------------------------------------------ the FilenameData node *)
Lemma lN_eqb_eq' a b : lN_eqb a b = true <-> a = b.
Proof. unfold lN_eqb. apply list_eqb_spec. intros x y. apply N.eqb_eq. Qed.

Lemma lN_eqb_neq a b : a <> b -> lN_eqb a b = false.
Proof. intros H. destruct (lN_eqb a b) eqn:E; [|reflexivity]. apply lN_eqb_eq' in E. contradiction. Qed.

Lemma nget_app k n1 n2 : nget k (n1 ++ n2) = match nget k n1 with Some m => Some m | None => nget k n2 end.
Proof. induction n1 as [|[k' m] r IH]; simpl; [reflexivity|]. destruct (lN_eqb k k'); [reflexivity | apply IH]. Qed.

Lemma nget_ndel_same k n : nget k (ndel k n) = None.
Proof.
  induction n as [|[k' m] r IH]; simpl; [reflexivity|]. destruct (lN_eqb k k') eqn:E; [apply IH|]. simpl. rewrite E. apply IH.
Qed.

Lemma nget_ndel_other k k2 n : k <> k2 -> nget k (ndel k2 n) = nget k n.
Proof.
  intros Hne. induction n as [|[k' m] r IH]; simpl; [reflexivity|].
  destruct (lN_eqb k2 k') eqn:E2.
  - apply lN_eqb_eq' in E2. subst k'. rewrite (lN_eqb_neq k k2 Hne). apply IH.
  - simpl. destruct (lN_eqb k k'); [reflexivity | apply IH].
Qed.

(* every file name other than the two member names the node already uses: the blob and its name come back, whatever else
   the node held before (a previous blob under the same or another name included) *)
Theorem node_roundtrip : forall n name b,
  nget k_Type n = Some MType -> name <> k_Data -> name <> k_Type ->
  node_read (node_write n name b) = Ok (Some (name, b)).
Proof.
  intros n name b Ht Hd Hty. unfold node_read, node_write, nadd.
  assert (forall k, k <> name -> k <> k_Data ->
                    nget k (ndel name (ndel k_Data n ++ [(k_Data, MName name)]) ++ [(name, MBlob b)]) = nget k n) as Hother.
  { intros k H1 H2. rewrite nget_app, nget_ndel_other, nget_app, nget_ndel_other by assumption.
    destruct (nget k n); [reflexivity|]. simpl. rewrite (lN_eqb_neq k k_Data H2). simpl. rewrite (lN_eqb_neq k name H1). reflexivity. }
  rewrite Hother by (intros E; congruence || (apply Hty; symmetry; assumption) || discriminate E).
  rewrite Ht.
  assert (nget k_Data (ndel name (ndel k_Data n ++ [(k_Data, MName name)]) ++ [(name, MBlob b)]) = Some (MName name)) as ->.
  { rewrite nget_app, nget_ndel_other, nget_app, nget_ndel_same by (intros E; apply Hd; symmetry; assumption).
    simpl. reflexivity. }
  rewrite nget_app, nget_ndel_same. simpl. rewrite (proj2 (lN_eqb_eq' name name) eq_refl). reflexivity.
Qed.

(* the two reserved names: consequences of the same two-dataset model *)
Theorem node_named_Data_lost : forall b, node_read (node_write node0 k_Data b) = Ok None.
Proof. reflexivity. Qed.

Theorem node_named_Type_unloadable : forall b, node_read (node_write node0 k_Type b) = Err TypeErr.
Proof. reflexivity. Qed.

Definition node_full : Prop :=
  forall name b, node_read (node_write node0 name b) = Ok (Some (name, b)).

Theorem node_full_refuted : ~ node_full.
Proof. intros H. specialize (H k_Data [120%N]). discriminate H. Qed.

(* add_file stores the blob exactly when the name is acceptable and the content is a non-empty byte string *)
Theorem blob_add_ok_iff : forall name x b,
  blob_add name x = Ok b <-> name_refusal name = None /\ x = FBytes b /\ b <> [].
Proof.
  intros name x b. unfold blob_add, name_refusal. destruct name as [|c r].
  - simpl. destruct x as [[|? ?]|]; split; try discriminate; intros (H & _); discriminate H.
  - destruct (has_nul (c :: r)); [split; [discriminate | intros (H & _); discriminate H]|].
    destruct (lN_eqb (c :: r) [46%N]); [split; [discriminate | intros (H & _); discriminate H]|].
    destruct x as [[|c2 b2]|]; split; try discriminate.
    + intros (_ & H & Hb). inversion H; subst. congruence.
    + intros H. inversion H; subst. repeat split. discriminate.
    + intros (_ & H & _). inversion H; subst. reflexivity.
    + intros (_ & H & _). discriminate H.
Qed.
