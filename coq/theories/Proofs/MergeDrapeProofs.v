(* Proofs about Model/MergeDrape.v (property C16, drape models). *)
From GV Require Import Prelude.Base Model.Merge Model.MergeDrape Proofs.MergeProofs.

(* ====================================================================================================== *)
(* 1. canonical layout                                                                                     *)
(* ====================================================================================================== *)

Lemma rev_cons_inv {A} : forall (l : list A) x t, rev l = x :: t -> l = rev t ++ [x].
Proof. intros l x t H. rewrite <- (rev_involutive l), H. reflexivity. Qed.

Lemma skipn_add {A} : forall a b (l : list A), skipn a (skipn b l) = skipn (b + a) l.
Proof. intros a b. induction b as [|b IH]; intros l; [reflexivity|]. destruct l; simpl; [destruct a; reflexivity | apply IH]. Qed.

Lemma layout_fromb_ok : forall ps j f ls, layout_fromb j f ps ls = true -> layout_from j f ps ls.
Proof.
  induction ps as [|p r IH]; intros j f ls H; cbn [layout_fromb layout_from] in *.
  - destruct ls; [reflexivity | discriminate].
  - apply andb_true_iff in H as [H H5]. apply andb_true_iff in H as [H H4]. apply andb_true_iff in H as [H H3].
    apply andb_true_iff in H as [H1 H2].
    apply Nat.eqb_eq in H1. apply Nat.leb_le in H2. apply Nat.leb_le in H3.
    repeat split; try assumption.
    + apply Forall_forall. intros l Hl. rewrite forallb_forall in H4. apply Nat.eqb_eq. apply H4. exact Hl.
    + apply IH. exact H5.
Qed.

Lemma gwfb_ok : forall i, gwfb i = true -> gwf i.
Proof.
  intros i H. unfold gwfb in H. apply andb_true_iff in H as [H1 H2]. split.
  - apply Nat.leb_le. exact H1.
  - apply layout_fromb_ok. exact H2.
Qed.

(* number of layers = sum of the layer counts; the last prism ends where the layers end *)
Lemma layout_last : forall ps' p j f ls,
  layout_from j f (ps' ++ [p]) ls -> pfirst p + pcount p = f + length ls.
Proof.
  induction ps' as [|q r IH]; intros p j f ls H; simpl in H.
  - destruct H as [H1 [H2 [H3 [_ H5]]]].
    assert (length (skipn (pcount p) ls) = 0) by (rewrite H5; reflexivity).
    rewrite skipn_length in H. lia.
  - destruct H as [H1 [H2 [H3 [_ H5]]]].
    apply IH in H5. rewrite skipn_length in H5. lia.
Qed.

(* the last layer belongs to the last prism *)
Lemma layout_last_layer : forall ps' p j f ls,
  layout_from j f (ps' ++ [p]) ls -> exists ls' l, ls = ls' ++ [l] /\ lcol l = j + length ps'.
Proof.
  induction ps' as [|q r IH]; intros p j f ls H; simpl in H.
  - destruct H as [H1 [H2 [H3 [H4 H5]]]].
    assert (Hne : ls <> []) by (intros ->; simpl in H3; lia).
    exists (removelast ls), (last ls {| lcol := 0; lrow := 0; lbot := 0 |}).
    split; [apply app_removelast_last; exact Hne|].
    assert (Hall : firstn (pcount p) ls = ls).
    { apply firstn_all2. assert (length (skipn (pcount p) ls) = 0) by (rewrite H5; reflexivity).
      rewrite skipn_length in H. lia. }
    rewrite Hall in H4. rewrite Forall_forall in H4. rewrite Nat.add_0_r. apply H4.
    rewrite (app_removelast_last {| lcol := 0; lrow := 0; lbot := 0 |} Hne) at 2. apply in_or_app. right. left. reflexivity.
  - destruct H as [H1 [H2 [H3 [H4 H5]]]].
    destruct (IH _ _ _ _ H5) as [ls' [l [E Hl]]].
    exists (firstn (pcount q) ls ++ ls'), l. split.
    + rewrite <- app_assoc, <- E. symmetry. apply firstn_skipn.
    + simpl. lia.
Qed.

(* prism q of a canonical table owns [pcount] layers that carry its index as column *)
Lemma layout_nth : forall ps j f ls q p,
  layout_from j f ps ls -> nth_error ps q = Some p ->
  exists a, pfirst p = f + a /\ 1 <= pcount p /\ a + pcount p <= length ls
            /\ Forall (fun l => lcol l = j + q) (slice ls a (pcount p)).
Proof.
  induction ps as [|p0 r IH]; intros j f ls q p H Hq; [destruct q; discriminate|].
  simpl in H. destruct H as [H1 [H2 [H3 [H4 H5]]]].
  destruct q as [|q]; simpl in Hq.
  - inversion Hq; subst p. exists 0. rewrite !Nat.add_0_r. repeat split; try assumption; try lia.
  - destruct (IH _ _ _ _ _ H5 Hq) as [a [E1 [E2 [E3 E4]]]].
    exists (pcount p0 + a). rewrite skipn_length in E3. repeat split; try lia.
    unfold slice in *. rewrite skipn_add in E4.
    eapply Forall_impl; [|exact E4]. simpl. intros l Hl. lia.
Qed.

Lemma layout_app : forall ps1 ps2 ls1 ls2 j f,
  layout_from j f ps1 ls1 -> layout_from (j + length ps1) (f + length ls1) ps2 ls2 ->
  layout_from j f (ps1 ++ ps2) (ls1 ++ ls2).
Proof.
  induction ps1 as [|p r IH]; intros ps2 ls1 ls2 j f H1 H2; simpl in *.
  - subst ls1. simpl in *. rewrite !Nat.add_0_r in H2. exact H2.
  - destruct H1 as [E1 [E2 [E3 [E4 E5]]]].
    repeat split; try assumption.
    + rewrite app_length. lia.
    + rewrite firstn_app. replace (pcount p - length ls1) with 0 by lia. rewrite firstn_O, app_nil_r. exact E4.
    + rewrite skipn_app. replace (pcount p - length ls1) with 0 by lia. simpl.
      apply IH; [exact E5|].
      rewrite skipn_length.
      replace (S j + length r) with (j + S (length r)) by lia.
      replace (f + pcount p + (length ls1 - pcount p)) with (f + length ls1) by lia. exact H2.
Qed.

Lemma layout_shift : forall ps ls j f a b,
  layout_from j f ps ls -> layout_from (j + a) (f + b) (map (shift_first b) ps) (map (shift_col a) ls).
Proof.
  induction ps as [|p r IH]; intros ls j f a b H; simpl in *.
  - subst ls. reflexivity.
  - destruct H as [E1 [E2 [E3 [E4 E5]]]]. rewrite map_length.
    repeat split; try assumption; try lia.
    + rewrite firstn_map. apply Forall_forall. intros l Hl. apply in_map_iff in Hl as [l0 [<- Hl0]].
      rewrite Forall_forall in E4. simpl. rewrite (E4 l0 Hl0). reflexivity.
    + rewrite skipn_map.
      replace (f + b + pcount p) with (f + pcount p + b) by lia.
      apply (IH _ (S j) (f + pcount p) a b). exact E5.
Qed.

(* what create_object reads off a well-formed input *)
Lemma gwf_shape : forall i, gwf i ->
  exists p0 p1 t plast pprev t' llast t'',
    dps i = p0 :: p1 :: t /\ rev (dps i) = plast :: pprev :: t' /\ rev (dls i) = llast :: t''
    /\ pfirst plast + pcount plast = lcnt i /\ lcol llast + 1 = pcnt i.
Proof.
  intros i [Hn Hl]. unfold pcnt, lcnt in *.
  destruct (dps i) as [|p0 [|p1 t]] eqn:Eps; simpl in Hn; try lia.
  destruct (rev (p0 :: p1 :: t)) as [|plast [|pprev t']] eqn:Er.
  - apply (f_equal (@length _)) in Er. rewrite rev_length in Er. simpl in Er. discriminate.
  - apply (f_equal (@length _)) in Er. rewrite rev_length in Er. simpl in Er. discriminate.
  - pose proof (rev_cons_inv _ _ _ Er) as E. rewrite E in Hl.
    pose proof (layout_last _ _ _ _ _ Hl) as H1.
    destruct (layout_last_layer _ _ _ _ _ Hl) as [ls' [l [E2 H2]]].
    exists p0, p1, t, plast, pprev, t', l, (rev ls').
    split; [reflexivity|]. split; [reflexivity|]. split; [rewrite E2, rev_app_distr; reflexivity|].
    split; [simpl in H1; exact H1|].
    rewrite H2. simpl. apply (f_equal (@length _)) in E. rewrite app_length in E. simpl in E. simpl. lia.
Qed.

(* ====================================================================================================== *)
(* 2. the specification of the merged tables and: create_object meets it                                  *)
(* ====================================================================================================== *)

Definition xyz0 : prism := {| px := 0; py := 0; ptop := 0; pfirst := 0; pcount := 0 |}.

(* ghost after input i (mirror of its last prism through the one before) / before input i (mirror of its first prism
   through the second); [fl] = index of the ghost's layer, [c] = index of the ghost prism.  The fall-back branch is
   never taken for inputs with two or more prisms. *)
Definition gh_after (i : dinp) (fl c : nat) : prism * layer :=
  match rev (dps i) with a :: b :: _ => ghost_point a b fl c | _ => ghost_point xyz0 xyz0 fl c end.
Definition gh_before (i : dinp) (fl c : nat) : prism * layer :=
  match dps i with a :: b :: _ => ghost_point a b fl c | _ => ghost_point xyz0 xyz0 fl c end.

(* lo = number of output layers before, po = number of output prisms before *)
Fixpoint spec_from (lo po : nat) (ins : list dinp) : list prism * list layer :=
  match ins with
  | [] => ([], [])
  | i :: r =>
      let sp := map (shift_first lo) (dps i) in
      let sl := map (shift_col po) (dls i) in
      match r with
      | [] => (sp, sl)
      | i' :: _ =>
          let g1 := gh_after i (lo + lcnt i) (po + pcnt i) in
          let g2 := gh_before i' (lo + lcnt i + 1) (po + pcnt i + 1) in
          let R := spec_from (lo + lcnt i + 2) (po + pcnt i + 2) r in
          (sp ++ [fst g1; fst g2] ++ fst R, sl ++ [snd g1; snd g2] ++ snd R)
      end
  end.

Lemma spec_from_cons2 : forall lo po i i' r',
  spec_from lo po (i :: i' :: r') =
  (map (shift_first lo) (dps i)
     ++ [fst (gh_after i (lo + lcnt i) (po + pcnt i)); fst (gh_before i' (lo + lcnt i + 1) (po + pcnt i + 1))]
     ++ fst (spec_from (lo + lcnt i + 2) (po + pcnt i + 2) (i' :: r')),
   map (shift_col po) (dls i)
     ++ [snd (gh_after i (lo + lcnt i) (po + pcnt i)); snd (gh_before i' (lo + lcnt i + 1) (po + pcnt i + 1))]
     ++ snd (spec_from (lo + lcnt i + 2) (po + pcnt i + 2) (i' :: r'))).
Proof. reflexivity. Qed.

Lemma ghost_point_shift : forall a b n fl c, ghost_point (shift_first n a) (shift_first n b) fl c = ghost_point a b fl c.
Proof. reflexivity. Qed.

Definition pre_of (gh : option (prism * layer)) (ins : list dinp) (pp pl : nat) : list prism * list layer :=
  match gh, ins with
  | Some (gp, gl), i :: _ => let g := gh_before i (pp - 1) (pl - 1) in ([gp; fst g], [gl; snd g])
  | _, _ => ([], [])
  end.

Lemma create_from_spec : forall ins pp pl gh,
  Forall gwf ins ->
  create_from pp pl gh ins
  = Ok (fst (pre_of gh ins pp pl) ++ fst (spec_from pp pl ins), snd (pre_of gh ins pp pl) ++ snd (spec_from pp pl ins)).
Proof.
  induction ins as [|i r IH]; intros pp pl gh Hwf.
  - simpl. destruct gh as [[gp gl]|]; reflexivity.
  - inversion Hwf as [|? ? Hi Hr]; subst.
    destruct (gwf_shape _ Hi) as [p0 [p1 [t [plast [pprev [t' [llast [t'' [E1 [E2 [E3 [F1 F2]]]]]]]]]]]].
    cbn [create_from]. rewrite E2, E3.
    assert (Em : forall (X : Type) (f : prism -> prism -> X) (e : X),
               match dps i with a :: b :: _ => f a b | _ => e end = f p0 p1) by (intros; rewrite E1; reflexivity).
    rewrite Em. clear Em.
    replace (pcount (shift_first pp plast) + pfirst (shift_first pp plast) + 2) with (pp + lcnt i + 2) by (simpl; lia).
    replace (lcol (shift_col pl llast) + 3) with (pl + pcnt i + 2) by (simpl; lia).
    rewrite (IH _ _ _ Hr). rewrite ghost_point_shift.
    replace (pp + lcnt i + 2 - 2) with (pp + lcnt i) by lia.
    replace (pl + pcnt i + 2 - 2) with (pl + pcnt i) by lia.
    assert (Hpre : (match gh with
                    | Some (gp, gl) => let '(fp, fl) := ghost_point p0 p1 (pp - 1) (pl - 1) in ([gp; fp], [gl; fl])
                    | None => ([], [])
                    end) = pre_of gh (i :: r) pp pl).
    { unfold pre_of, gh_before. rewrite E1. destruct gh as [[gp gl]|]; reflexivity. }
    rewrite Hpre. f_equal.
    destruct r as [|i' r'].
    + simpl. rewrite !app_nil_r. reflexivity.
    + assert (Ega : forall fl c, gh_after i fl c = ghost_point plast pprev fl c)
        by (intros; unfold gh_after; rewrite E2; reflexivity).
      rewrite spec_from_cons2. cbn [pre_of fst snd]. rewrite !Ega.
      replace (pp + lcnt i + 2 - 1) with (pp + lcnt i + 1) by lia.
      replace (pl + pcnt i + 2 - 1) with (pl + pcnt i + 1) by lia.
      destruct (ghost_point plast pprev (pp + lcnt i) (pl + pcnt i)) as [gp1 gl1]. reflexivity.
Qed.

Lemma create_spec : forall ins, Forall gwf ins -> create_from 0 0 None ins = Ok (spec_from 0 0 ins).
Proof.
  intros ins H. rewrite (create_from_spec ins 0 0 None H). cbn [pre_of fst snd app]. destruct (spec_from 0 0 ins); reflexivity.
Qed.

(* ====================================================================================================== *)
(* 3. what the specification (hence the code) says about every input prism / layer and about the ghosts    *)
(* ====================================================================================================== *)

Lemma poff_0 : forall ins, poff ins 0 = 0. Proof. reflexivity. Qed.
Lemma loff_0 : forall ins, loff ins 0 = 0. Proof. reflexivity. Qed.
Lemma poff_S : forall a r t, poff (a :: r) (S t) = pcnt a + 2 + poff r t. Proof. reflexivity. Qed.
Lemma loff_S : forall a r t, loff (a :: r) (S t) = lcnt a + 2 + loff r t. Proof. reflexivity. Qed.

Lemma nth_error_mid {A} : forall (X M Y : list A) j,
  j < length M -> nth_error (X ++ M ++ Y) (length X + j) = nth_error M j.
Proof.
  intros X M Y j H. rewrite nth_error_app2 by lia. replace (length X + j - length X) with j by lia.
  apply nth_error_app1. exact H.
Qed.

Lemma slice_mid {A} : forall (X M Y : list A) a n,
  a + n <= length M -> slice (X ++ M ++ Y) (length X + a) n = slice M a n.
Proof.
  intros X M Y a n H. unfold slice.
  rewrite skipn_app. rewrite skipn_all2 by lia. replace (length X + a - length X) with a by lia. simpl.
  rewrite skipn_app. rewrite firstn_app. rewrite skipn_length.
  replace (n - (length M - a)) with 0 by lia. rewrite firstn_O, app_nil_r. reflexivity.
Qed.

Lemma spec_struct : forall ins lo po t i,
  nth_error ins t = Some i ->
  exists A B A' B',
    fst (spec_from lo po ins) = A ++ map (shift_first (lo + loff ins t)) (dps i) ++ B
    /\ length A = poff ins t
    /\ snd (spec_from lo po ins) = A' ++ map (shift_col (po + poff ins t)) (dls i) ++ B'
    /\ length A' = loff ins t
    /\ (forall i', nth_error ins (S t) = Some i' ->
        exists B2 B2',
          B = [fst (gh_after i (lo + loff ins t + lcnt i) (po + poff ins t + pcnt i));
               fst (gh_before i' (lo + loff ins t + lcnt i + 1) (po + poff ins t + pcnt i + 1))] ++ B2
          /\ B' = [snd (gh_after i (lo + loff ins t + lcnt i) (po + poff ins t + pcnt i));
                   snd (gh_before i' (lo + loff ins t + lcnt i + 1) (po + poff ins t + pcnt i + 1))] ++ B2').
Proof.
  induction ins as [|a r IH]; intros lo po t i Ht; [destruct t; discriminate|].
  destruct t as [|t].
  - simpl in Ht. inversion Ht; subst a. rewrite poff_0, loff_0, !Nat.add_0_r.
    destruct r as [|i' r'].
    + exists [], [], [], []. simpl. rewrite !app_nil_r. repeat split; try reflexivity. intros i' H. discriminate.
    + rewrite spec_from_cons2. cbn [fst snd].
      exists [], ([fst (gh_after i (lo + lcnt i) (po + pcnt i)); fst (gh_before i' (lo + lcnt i + 1) (po + pcnt i + 1))]
                    ++ fst (spec_from (lo + lcnt i + 2) (po + pcnt i + 2) (i' :: r'))),
             [], ([snd (gh_after i (lo + lcnt i) (po + pcnt i)); snd (gh_before i' (lo + lcnt i + 1) (po + pcnt i + 1))]
                    ++ snd (spec_from (lo + lcnt i + 2) (po + pcnt i + 2) (i' :: r'))).
      repeat split; try reflexivity.
      intros i'' H. simpl in H. inversion H; subst i''. eexists. eexists. split; reflexivity.
  - simpl in Ht. destruct r as [|i' r']; [destruct t; discriminate|].
    rewrite spec_from_cons2. cbn [fst snd].
    destruct (IH (lo + lcnt a + 2) (po + pcnt a + 2) t i Ht) as [A [B [A' [B' [E1 [L1 [E2 [L2 G]]]]]]]].
    rewrite poff_S, loff_S.
    replace (lo + (lcnt a + 2 + loff (i' :: r') t)) with (lo + lcnt a + 2 + loff (i' :: r') t) by lia.
    replace (po + (pcnt a + 2 + poff (i' :: r') t)) with (po + pcnt a + 2 + poff (i' :: r') t) by lia.
    exists (map (shift_first lo) (dps a)
              ++ [fst (gh_after a (lo + lcnt a) (po + pcnt a)); fst (gh_before i' (lo + lcnt a + 1) (po + pcnt a + 1))] ++ A), B,
           (map (shift_col po) (dls a)
              ++ [snd (gh_after a (lo + lcnt a) (po + pcnt a)); snd (gh_before i' (lo + lcnt a + 1) (po + pcnt a + 1))] ++ A'), B'.
    split; [rewrite E1, <- !app_assoc; reflexivity|].
    split; [rewrite !app_length, map_length, L1; unfold pcnt; simpl; lia|].
    split; [rewrite E2, <- !app_assoc; reflexivity|].
    split; [rewrite !app_length, map_length, L2; unfold lcnt; simpl; lia|].
    intros i'' H. change (nth_error (a :: i' :: r') (S (S t))) with (nth_error (i' :: r') (S t)) in H.
    exact (G i'' H).
Qed.

(* lengths *)
Lemma spec_lengths : forall ins lo po, ins <> [] ->
  length (fst (spec_from lo po ins)) + 2 = sum_p ins + 2 * length ins
  /\ length (snd (spec_from lo po ins)) + 2 = sum_l ins + 2 * length ins.
Proof.
  induction ins as [|a r IH]; intros lo po Hne; [congruence|].
  destruct r as [|i' r'].
  - simpl. rewrite !map_length. unfold pcnt, lcnt. lia.
  - rewrite spec_from_cons2. cbn [fst snd].
    destruct (IH (lo + lcnt a + 2) (po + pcnt a + 2)) as [H1 H2]; [discriminate|].
    rewrite !app_length, !map_length.
    change (sum_p (a :: i' :: r')) with (pcnt a + sum_p (i' :: r')).
    change (sum_l (a :: i' :: r')) with (lcnt a + sum_l (i' :: r')).
    change (length (a :: i' :: r')) with (S (length (i' :: r'))).
    unfold pcnt, lcnt in *. simpl length in *. lia.
Qed.

(* every position of the output is a position of an input prism or one of the two ghost positions after an input
   that has a successor (pure arithmetic on the offsets) *)
Lemma positions_decompose : forall (sz : dinp -> nat) ins q,
  q + 2 < fold_right (fun i a => sz i + 2 + a) 0 ins ->
  (exists t i j, nth_error ins t = Some i /\ j < sz i /\ q = fold_right (fun i a => sz i + 2 + a) 0 (firstn t ins) + j)
  \/ (exists t i e, nth_error ins t = Some i /\ S t < length ins /\ e < 2
                    /\ q = fold_right (fun i a => sz i + 2 + a) 0 (firstn t ins) + sz i + e).
Proof.
  intros sz. induction ins as [|a r IH]; intros q H; simpl in H; [lia|].
  destruct (Nat.lt_ge_cases q (sz a)) as [Hlt|Hge].
  - left. exists 0, a, q. repeat split; auto.
  - destruct (Nat.lt_ge_cases q (sz a + 2)) as [Hlt2|Hge2].
    + right. exists 0, a, (q - sz a). simpl. repeat split; try lia.
      destruct r; simpl in *; lia.
    + destruct (IH (q - (sz a + 2))) as [[t [i [j [H1 [H2 H3]]]]]|[t [i [e [H1 [H2 [H3 H4]]]]]]]; [lia| |].
      * left. exists (S t), i, j. simpl. repeat split; auto. lia.
      * right. exists (S t), i, e. simpl. repeat split; auto; lia.
Qed.

Lemma gh_after_fields : forall i fl c,
  pfirst (fst (gh_after i fl c)) = fl /\ pcount (fst (gh_after i fl c)) = 1
  /\ lcol (snd (gh_after i fl c)) = c /\ lrow (snd (gh_after i fl c)) = 0
  /\ lbot (snd (gh_after i fl c)) = ptop (fst (gh_after i fl c)).
Proof. intros. unfold gh_after. destruct (rev (dps i)) as [|a [|b ?]]; simpl; repeat split; reflexivity. Qed.

Lemma gh_before_fields : forall i fl c,
  pfirst (fst (gh_before i fl c)) = fl /\ pcount (fst (gh_before i fl c)) = 1
  /\ lcol (snd (gh_before i fl c)) = c /\ lrow (snd (gh_before i fl c)) = 0
  /\ lbot (snd (gh_before i fl c)) = ptop (fst (gh_before i fl c)).
Proof. intros. unfold gh_before. destruct (dps i) as [|a [|b ?]]; simpl; repeat split; reflexivity. Qed.

(* the merged tables are again a canonical drape model: every output prism -- ghosts included -- owns the layers it
   points at *)
Lemma spec_layout : forall ins lo po, Forall gwf ins ->
  layout_from po lo (fst (spec_from lo po ins)) (snd (spec_from lo po ins)).
Proof.
  induction ins as [|a r IH]; intros lo po Hwf; [reflexivity|].
  inversion Hwf as [|? ? [_ Ha] Hr]; subst.
  pose proof (layout_shift _ _ _ _ po lo Ha) as Hs. simpl in Hs.
  destruct r as [|i' r']; [exact Hs|].
  rewrite spec_from_cons2. cbn [fst snd].
  apply layout_app; [exact Hs|]. rewrite !map_length. fold (pcnt a). fold (lcnt a).
  apply (layout_app [_; _] _ [_; _]).
  - destruct (gh_after_fields a (lo + lcnt a) (po + pcnt a)) as [F1 [F2 [F3 _]]].
    destruct (gh_before_fields i' (lo + lcnt a + 1) (po + pcnt a + 1)) as [G1 [G2 [G3 _]]].
    simpl. rewrite F1, F2, G1, G2. simpl.
    repeat split; try lia; try (repeat constructor; lia).
  - simpl length. replace (po + pcnt a + 2) with (po + pcnt a + 2) by lia. apply IH. exact Hr.
Qed.

(* ---- the layers setter accepts the merged table: the columns of a canonical table are 0 .. n-1, all present ---- *)
Lemma layout_cols_range : forall ps j f ls l, layout_from j f ps ls -> In l ls -> j <= lcol l < j + length ps.
Proof.
  induction ps as [|p r IH]; intros j f ls l H Hl; simpl in H.
  - subst ls. contradiction.
  - destruct H as [_ [_ [_ [H4 H5]]]].
    rewrite <- (firstn_skipn (pcount p) ls) in Hl. apply in_app_or in Hl as [Hl|Hl].
    + rewrite Forall_forall in H4. rewrite (H4 l Hl). simpl. lia.
    + specialize (IH _ _ _ _ H5 Hl). simpl. lia.
Qed.

Lemma layout_cols_all : forall ps j f ls q, layout_from j f ps ls -> j <= q < j + length ps -> exists l, In l ls /\ lcol l = q.
Proof.
  induction ps as [|p r IH]; intros j f ls q H Hq; simpl in *; [lia|].
  destruct H as [_ [H2 [H3 [H4 H5]]]].
  destruct (Nat.eq_dec q j) as [->|Hne].
  - destruct ls as [|l0 ls0]; [simpl in H3; lia|]. exists l0. split; [left; reflexivity|].
    rewrite Forall_forall in H4. apply H4. destruct (pcount p); [lia|]. left. reflexivity.
  - destruct (IH (S j) _ _ q H5) as [l [Hl E]]; [lia|]. exists l. split; [|exact E].
    rewrite <- (firstn_skipn (pcount p) ls). apply in_or_app. right. exact Hl.
Qed.

Lemma max_list_lt : forall c n, 0 < n -> (forall x, In x c -> x < n) -> max_list c < n.
Proof.
  induction c as [|x r IH]; intros n Hn H; simpl; [exact Hn|].
  assert (x < n) by (apply H; left; reflexivity).
  assert (max_list r < n) by (apply IH; [exact Hn | intros y Hy; apply H; right; exact Hy]).
  unfold max_list in *. lia.
Qed.

Lemma layout_cols_consecutive : forall ps ls, layout_from 0 0 ps ls -> cols_consecutive ls = true.
Proof.
  intros ps ls H. unfold cols_consecutive.
  destruct (map lcol ls) as [|c0 cr] eqn:E; [reflexivity|]. rewrite <- E.
  apply forallb_forall. intros x Hx. apply in_seq in Hx.
  assert (Hps : 0 < length ps).
  { destruct ps; [simpl in H; subst ls; discriminate | simpl; lia]. }
  assert (Hmax : max_list (map lcol ls) < length ps).
  { apply max_list_lt; [exact Hps|]. intros y Hy. apply in_map_iff in Hy as [l [<- Hl]].
    pose proof (layout_cols_range _ _ _ _ l H Hl). lia. }
  destruct (layout_cols_all _ _ _ _ x H) as [l [Hl El]]; [lia|].
  apply existsb_exists. exists (lcol l). split; [apply in_map; exact Hl | apply Nat.eqb_eq; symmetry; exact El].
Qed.

(* create_object succeeds on two or more well-formed inputs and returns the specified tables *)
Lemma drape_create_spec : forall ins, 2 <= length ins -> Forall gwf ins -> drape_create ins = Ok (spec_from 0 0 ins).
Proof.
  intros ins Hn Hwf. unfold drape_create.
  replace (length ins <? 2) with false by (symmetry; apply Nat.ltb_ge; exact Hn).
  rewrite (create_spec _ Hwf).
  pose proof (spec_layout ins 0 0 Hwf) as Hl. apply layout_cols_consecutive in Hl.
  destruct (spec_from 0 0 ins) as [P L]. simpl in Hl. rewrite Hl. reflexivity.
Qed.

Lemma drape_create_inv : forall ins P L, Forall gwf ins -> drape_create ins = Ok (P, L) ->
  2 <= length ins /\ spec_from 0 0 ins = (P, L).
Proof.
  intros ins P L Hwf H. unfold drape_create in H.
  destruct (length ins <? 2) eqn:E; [discriminate|]. apply Nat.ltb_ge in E. split; [exact E|].
  pose proof (drape_create_spec ins E Hwf) as H2. unfold drape_create in H2.
  replace (length ins <? 2) with false in H2 by (symmetry; apply Nat.ltb_ge; exact E).
  rewrite H2 in H. inversion H. reflexivity.
Qed.

(* ====================================================================================================== *)
(* 4. the geometry clauses of C16 for drape models, stated about drape_create                              *)
(* ====================================================================================================== *)

Lemma slice_map {A B} (f : A -> B) (l : list A) a n : slice (map f l) a n = map f (slice l a n).
Proof. unfold slice. rewrite skipn_map, firstn_map. reflexivity. Qed.

Section Geometry.
Variables (ins : list dinp) (P : list prism) (L : list layer).
Hypothesis Hwf : Forall gwf ins.
Hypothesis Hc : drape_create ins = Ok (P, L).

Lemma geo_spec_eq : spec_from 0 0 ins = (P, L).
Proof. apply drape_create_inv; assumption. Qed.

Lemma drape_prism : forall t i j p,
  nth_error ins t = Some i -> nth_error (dps i) j = Some p ->
  nth_error P (poff ins t + j) = Some (shift_first (loff ins t) p).
Proof.
  intros t i j p Ht Hj.
  destruct (spec_struct ins 0 0 t i Ht) as [A [B [A' [B' [E1 [L1 _]]]]]].
  rewrite geo_spec_eq in E1. simpl in E1. rewrite E1, <- L1.
  rewrite nth_error_mid by (rewrite map_length; apply nth_error_Some; congruence).
  apply map_nth_error. exact Hj.
Qed.

Lemma drape_layer : forall t i j l,
  nth_error ins t = Some i -> nth_error (dls i) j = Some l ->
  nth_error L (loff ins t + j) = Some (shift_col (poff ins t) l).
Proof.
  intros t i j l Ht Hj.
  destruct (spec_struct ins 0 0 t i Ht) as [A [B [A' [B' [_ [_ [E2 [L2 _]]]]]]]].
  rewrite geo_spec_eq in E2. simpl in E2. rewrite E2, <- L2.
  rewrite nth_error_mid by (rewrite map_length; apply nth_error_Some; congruence).
  apply map_nth_error. exact Hj.
Qed.

(* the output prism that corresponds to prism j of input t points at exactly that prism's layers (same rows and
   bottoms, in order), and those layers name it -- its output index -- as their column *)
Lemma drape_prism_owns_layers : forall t i j p,
  nth_error ins t = Some i -> nth_error (dps i) j = Some p ->
  let p' := shift_first (loff ins t) p in
  slice L (pfirst p') (pcount p') = map (shift_col (poff ins t)) (slice (dls i) (pfirst p) (pcount p))
  /\ length (slice (dls i) (pfirst p) (pcount p)) = pcount p
  /\ 1 <= pcount p
  /\ Forall (fun l => lcol l = poff ins t + j) (slice L (pfirst p') (pcount p')).
Proof.
  intros t i j p Ht Hj p'.
  assert (Hi : gwf i) by (rewrite Forall_forall in Hwf; apply Hwf; eapply nth_error_In; exact Ht).
  destruct Hi as [_ Hl].
  destruct (layout_nth _ _ _ _ _ _ Hl Hj) as [a [E1 [E2 [E3 E4]]]]. simpl in E1. subst a.
  destruct (spec_struct ins 0 0 t i Ht) as [A [B [A' [B' [_ [_ [S2 [L2 _]]]]]]]].
  rewrite geo_spec_eq in S2. simpl in S2.
  assert (Hs : slice L (pfirst p') (pcount p') = map (shift_col (poff ins t)) (slice (dls i) (pfirst p) (pcount p))).
  { subst p'. simpl. rewrite S2, <- L2. rewrite (Nat.add_comm (pfirst p)).
    rewrite slice_mid by (rewrite map_length; exact E3). apply slice_map. }
  split; [exact Hs|]. split; [|split; [exact E2|]].
  - unfold slice. rewrite firstn_length, skipn_length. lia.
  - rewrite Hs. apply Forall_forall. intros l Hin. apply in_map_iff in Hin as [l0 [<- Hl0]].
    rewrite Forall_forall in E4. simpl. rewrite (E4 l0 Hl0). lia.
Qed.

(* between input t and input t+1: the mirror of t's last prism through the one before, then the mirror of (t+1)'s
   first prism through its second; each with one flat layer of its own *)
Lemma drape_ghosts : forall t i i',
  nth_error ins t = Some i -> nth_error ins (S t) = Some i' ->
  exists front pprev plast p0 p1 back,
    dps i = front ++ [pprev; plast] /\ dps i' = p0 :: p1 :: back
    /\ let g := poff ins t + pcnt i in
       let gl := loff ins t + lcnt i in
       nth_error P g = Some (fst (ghost_point plast pprev gl g))
       /\ nth_error L gl = Some (snd (ghost_point plast pprev gl g))
       /\ nth_error P (g + 1) = Some (fst (ghost_point p0 p1 (gl + 1) (g + 1)))
       /\ nth_error L (gl + 1) = Some (snd (ghost_point p0 p1 (gl + 1) (g + 1))).
Proof.
  intros t i i' Ht Ht'.
  assert (Hi : gwf i) by (rewrite Forall_forall in Hwf; apply Hwf; eapply nth_error_In; exact Ht).
  assert (Hi' : gwf i') by (rewrite Forall_forall in Hwf; apply Hwf; eapply nth_error_In; exact Ht').
  destruct (gwf_shape _ Hi) as [_ [_ [_ [plast [pprev [t' [_ [_ [_ [E2 _]]]]]]]]]].
  destruct (gwf_shape _ Hi') as [p0 [p1 [back [_ [_ [_ [_ [_ [E1 _]]]]]]]]].
  exists (rev t'), pprev, plast, p0, p1, back.
  split.
  { apply rev_cons_inv in E2. rewrite E2. simpl. rewrite <- app_assoc. reflexivity. }
  split; [exact E1|].
  destruct (spec_struct ins 0 0 t i Ht) as [A [B [A' [B' [S1 [L1 [S2 [L2 G]]]]]]]].
  destruct (G i' Ht') as [B2 [B2' [EB EB']]].
  rewrite geo_spec_eq in S1, S2. simpl in S1, S2, EB, EB'.
  assert (Ega : forall fl c, gh_after i fl c = ghost_point plast pprev fl c)
    by (intros; unfold gh_after; rewrite E2; reflexivity).
  assert (Egb : forall fl c, gh_before i' fl c = ghost_point p0 p1 fl c)
    by (intros; unfold gh_before; rewrite E1; reflexivity).
  rewrite Ega, Egb in EB, EB'.
  intros g gl. subst g gl.
  assert (HP : forall e, nth_error P (poff ins t + pcnt i + e) = nth_error B e).
  { intros e. rewrite S1. rewrite app_assoc. rewrite nth_error_app2 by (rewrite app_length, map_length; unfold pcnt; lia).
    f_equal. rewrite app_length, map_length. unfold pcnt. lia. }
  assert (HL : forall e, nth_error L (loff ins t + lcnt i + e) = nth_error B' e).
  { intros e. rewrite S2. rewrite app_assoc. rewrite nth_error_app2 by (rewrite app_length, map_length; unfold lcnt; lia).
    f_equal. rewrite app_length, map_length. unfold lcnt. lia. }
  pose proof (HP 0) as HP0. pose proof (HL 0) as HL0. rewrite Nat.add_0_r in HP0, HL0.
  rewrite HP0, HL0, HP, HL, EB, EB'. repeat split; reflexivity.
Qed.

Lemma drape_counts :
  length P = sum_p ins + 2 * (length ins - 1) /\ length L = sum_l ins + 2 * (length ins - 1).
Proof.
  destruct (drape_create_inv ins P L Hwf Hc) as [Hn _].
  destruct (spec_lengths ins 0 0) as [H1 H2]; [intros ->; simpl in Hn; lia|].
  rewrite geo_spec_eq in H1, H2. simpl in H1, H2. lia.
Qed.

Lemma sum_fold : forall (sz : dinp -> nat) l,
  fold_right (fun i a => sz i + 2 + a) 0 l = fold_right (fun i a => sz i + a) 0 l + 2 * length l.
Proof. intros sz l. induction l as [|a r IH]; simpl; [reflexivity | rewrite IH; lia]. Qed.

(* ... and nowhere else: every output prism is an input prism's image or one of those ghosts *)
Lemma drape_prisms_complete : forall q, q < length P ->
  (exists t i j, nth_error ins t = Some i /\ j < pcnt i /\ q = poff ins t + j)
  \/ (exists t i e, nth_error ins t = Some i /\ S t < length ins /\ e < 2 /\ q = poff ins t + pcnt i + e).
Proof.
  intros q Hq. destruct (drape_create_inv ins P L Hwf Hc) as [Hn _]. destruct drape_counts as [H1 _].
  apply (positions_decompose pcnt). rewrite sum_fold. fold (sum_p ins). lia.
Qed.

Lemma drape_layers_complete : forall q, q < length L ->
  (exists t i j, nth_error ins t = Some i /\ j < lcnt i /\ q = loff ins t + j)
  \/ (exists t i e, nth_error ins t = Some i /\ S t < length ins /\ e < 2 /\ q = loff ins t + lcnt i + e).
Proof.
  intros q Hq. destruct (drape_create_inv ins P L Hwf Hc) as [Hn _]. destruct drape_counts as [_ H2].
  apply (positions_decompose lcnt). rewrite sum_fold. fold (sum_l ins). lia.
Qed.

Lemma drape_output_canonical : layout_from 0 0 P L.
Proof. pose proof (spec_layout ins 0 0 Hwf) as H. rewrite geo_spec_eq in H. exact H. Qed.
End Geometry.

(* ====================================================================================================== *)
(* 5. merge_data of drape models                                                                           *)
(* ====================================================================================================== *)

(* ---- 5.1 what BaseMerger.merge_data sees ---- *)
Lemma total_to_inp_cell : forall l, total (map to_inp l) true = sum_l l.
Proof.
  induction l as [|a r IH]; [reflexivity|]. unfold total in *. simpl. rewrite app_length, map_length, IH. reflexivity.
Qed.

Lemma total_to_inp_vert : forall l, total (map to_inp l) false = 0.
Proof. induction l as [|a r IH]; [reflexivity|]. unfold total, merge_verts in *. simpl. exact IH. Qed.

Lemma doff_to_inp : forall l t, doff (map to_inp l) t true = sum_l (firstn t l).
Proof. intros l t. unfold doff, coff. rewrite firstn_map. apply (total_to_inp_cell (firstn t l)). Qed.

Lemma dwf_wf_inp : forall i, dwf i -> wf_inp (to_inp i).
Proof.
  intros i [H1 H2]. split; [exact H1|]. simpl. eapply Forall_impl; [|exact H2].
  intros d [Hc Hl]. simpl. rewrite Hc. unfold isize. simpl. rewrite map_length. exact Hl.
Qed.

Lemma sum_l_firstn_le : forall ins t i, nth_error ins t = Some i -> sum_l (firstn t ins) + lcnt i <= sum_l ins.
Proof.
  induction ins as [|a r IH]; intros [|t] i H; simpl in H; try discriminate.
  - inversion H; subst. simpl. lia.
  - specialize (IH t i H). simpl. lia.
Qed.

(* ---- 5.2 every array of the intermediate result has one entry per output cell ---- *)
Definition all_len (N : nat) (d : dict) : Prop := Forall (fun kv => length (snd kv) = N) d.

Lemma lookup_in : forall l d v, lookup l d = Some v -> exists k, In (k, v) d.
Proof.
  induction d as [|[k w] r IH]; intros v H; simpl in H; [discriminate|].
  destruct (label_eqb l k).
  - inversion H; subst. exists k. left. reflexivity.
  - destruct (IH v H) as [k' Hk]. exists k'. right. exact Hk.
Qed.

Lemma set_all_len : forall N l v d, all_len N d -> length v = N -> all_len N (set l v d).
Proof.
  induction d as [|[k w] r IH]; intros Hd Hv; simpl; [constructor|].
  pose proof (Forall_inv Hd) as H1. pose proof (Forall_inv_tail Hd) as H2.
  destruct (label_eqb l k); constructor; try assumption. apply IH; assumption.
Qed.

Lemma data_step_len : forall N st ind d,
  all_len N (md st) -> dcell d = true -> ccount st + length (dvals d) <= N ->
  all_len N (md (data_step 0 N st ind d)) /\ ccount (data_step 0 N st ind d) = ccount st.
Proof.
  intros N st ind d Hall Hc Hroom. unfold data_step. rewrite Hc.
  set (lbl := match lookup (lbl0 d) (md st) with
              | Some v => if all_none (slice v (ccount st) (length (dvals d))) then lbl0 d else (dname d, Some ind, dtype d, true)
              | None => lbl0 d end).
  set (d1 := match lookup lbl (md st) with Some _ => md st | None => md st ++ [(lbl, repeat None N)] end).
  assert (H1 : all_len N d1).
  { subst d1. destruct (lookup lbl (md st)); [exact Hall|].
    apply Forall_app. split; [exact Hall|]. constructor; [simpl; apply repeat_length | constructor]. }
  destruct (lookup lbl d1) as [v|] eqn:E; simpl.
  - split; [|reflexivity]. apply set_all_len; [exact H1|].
    destruct (lookup_in _ _ _ E) as [k Hk]. unfold all_len in H1. rewrite Forall_forall in H1.
    specialize (H1 _ Hk). simpl in H1. rewrite splice_length; lia.
  - split; [exact Hall | reflexivity].
Qed.

Lemma data_steps_len : forall N l st ind,
  all_len N (md st) -> Forall (fun d => dcell d = true /\ ccount st + length (dvals d) <= N) l ->
  all_len N (md (data_steps 0 N st ind l)) /\ ccount (data_steps 0 N st ind l) = ccount st.
Proof.
  induction l as [|d r IH]; intros st ind Hall Hl; simpl; [split; [exact Hall | reflexivity]|].
  inversion Hl as [|? ? [Hc Hroom] Hr]; subst.
  destruct (data_step_len N st ind d Hall Hc Hroom) as [H1 H2].
  destruct (IH (data_step 0 N st ind d) (S ind) H1) as [H3 H4].
  - rewrite H2. exact Hr.
  - split; [exact H3 | congruence].
Qed.

Lemma fold_len : forall N rest st,
  all_len N (md st) -> Forall dwf rest -> ccount st + sum_l rest <= N ->
  all_len N (md (fold_left (input_step 0 N) (map to_inp rest) st)).
Proof.
  induction rest as [|i r IH]; intros st Hall Hwf Hroom; simpl; [exact Hall|].
  inversion Hwf as [|? ? [_ Hi] Hr]; subst. simpl in Hroom.
  destruct (data_steps_len N (dds i) st 0 Hall) as [H1 H2].
  - eapply Forall_impl; [|exact Hi]. intros d [Hc Hl]. split; [exact Hc | lia].
  - apply IH; [exact H1 | exact Hr|]. simpl. rewrite H2, map_length. unfold lcnt in *. lia.
Qed.

(* ---- 5.3 values[idx] ---- *)
Lemma take_ok : forall v idx, (forall j, In j idx -> j < length v) -> exists t, take v idx = Ok t.
Proof.
  induction idx as [|j r IH]; intros H; [exists []; reflexivity|].
  destruct IH as [t Ht]; [intros k Hk; apply H; right; exact Hk|].
  assert (Hj : j < length v) by (apply H; left; reflexivity).
  apply nth_error_Some in Hj. simpl. destruct (nth_error v j) as [x|]; [|congruence].
  rewrite Ht. exists (x :: t). reflexivity.
Qed.

Lemma take_app : forall v a b t, take v (a ++ b) = Ok t ->
  exists ta tb, take v a = Ok ta /\ take v b = Ok tb /\ t = ta ++ tb.
Proof.
  induction a as [|j r IH]; intros b t H; simpl in *.
  - exists [], t. repeat split. exact H.
  - destruct (nth_error v j) as [x|]; [|discriminate].
    destruct (take v (r ++ b)) as [t'|e] eqn:E; [|discriminate]. inversion H; subst t.
    destruct (IH b t' E) as [ta [tb [H1 [H2 H3]]]]. rewrite H1.
    exists (x :: ta), tb. repeat split; [exact H2 | subst t'; reflexivity].
Qed.

Lemma take_length : forall v idx t, take v idx = Ok t -> length t = length idx.
Proof.
  induction idx as [|j r IH]; intros t H; simpl in H.
  - inversion H. reflexivity.
  - destruct (nth_error v j); [|discriminate]. destruct (take v r) as [t'|]; [|discriminate].
    inversion H; subst. simpl. f_equal. apply IH. reflexivity.
Qed.

Lemma take_seq : forall n v a, a + n <= length v -> take v (seq a n) = Ok (slice v a n).
Proof.
  induction n as [|n IH]; intros v a H; simpl.
  - unfold slice. rewrite firstn_O. reflexivity.
  - destruct (nth_error v a) as [x|] eqn:E; [|apply nth_error_None in E; lia].
    rewrite IH by lia. f_equal. unfold slice.
    assert (Hs : skipn a v = x :: skipn (S a) v).
    { clear IH H. revert v E. induction a as [|a IHa]; intros [|y v] E; simpl in E; try discriminate.
      - inversion E. reflexivity.
      - simpl. apply IHa. exact E. }
    rewrite Hs. reflexivity.
Qed.

Lemma take_cons : forall v j r t, take v (j :: r) = Ok t ->
  exists x t', nth_error v j = Some x /\ take v r = Ok t' /\ t = x :: t'.
Proof.
  intros v j r t H. simpl in H. destruct (nth_error v j) as [x|]; [|discriminate].
  destruct (take v r) as [t'|]; [|discriminate]. inversion H. exists x, t'. repeat split.
Qed.

Definition tk (idx : list nat) (v : vals) : option vals := match take v idx with Ok t => Some t | Err _ => None end.

Lemma reorder_lookup : forall idx d d', reorder_all idx d = Ok d' ->
  forall l, lookup l d' = match lookup l d with Some v => tk idx v | None => None end.
Proof.
  induction d as [|[k v] r IH]; intros d' H l; simpl in H.
  - inversion H. reflexivity.
  - destruct (take v idx) as [v'|] eqn:E; [|discriminate].
    destruct (reorder_all idx r) as [r'|] eqn:Er; [|discriminate]. inversion H; subst d'.
    simpl. destruct (label_eqb l k); [unfold tk; rewrite E; reflexivity | apply IH; reflexivity].
Qed.

Lemma reorder_ok : forall N idx d, all_len N d -> (forall j, In j idx -> j < N) -> exists d', reorder_all idx d = Ok d'.
Proof.
  induction d as [|[k v] r IH]; intros Hall Hidx; [exists []; reflexivity|].
  pose proof (Forall_inv Hall) as H1. pose proof (Forall_inv_tail Hall) as H2. simpl in H1.
  destruct (take_ok v idx) as [t Ht]; [intros j Hj; rewrite H1; apply Hidx; exact Hj|].
  destruct (IH H2 Hidx) as [r' Hr]. simpl. rewrite Ht, Hr. exists ((k, t) :: r'). reflexivity.
Qed.

(* ---- 5.4 the index map ---- *)
Fixpoint idx_from (count g nv : nat) (ins : list dinp) : list nat :=
  match ins with
  | [] => []
  | i :: r => seq count (lcnt i)
              ++ match r with
                 | [] => []
                 | _ :: _ => [nv + g * 2; nv + g * 2 + 1] ++ idx_from (count + lcnt i) (S g) nv r
                 end
  end.

Lemma ind_idx_eq : forall ins c g nv, concat (removelast (ind_map_from c g nv ins)) = idx_from c g nv ins.
Proof.
  induction ins as [|i r IH]; intros c g nv; [reflexivity|].
  destruct r as [|i' r'].
  - simpl. reflexivity.
  - specialize (IH (c + lcnt i) (S g) nv).
    change (ind_map_from c g nv (i :: i' :: r'))
      with (seq c (lcnt i) :: [nv + g * 2; nv + g * 2 + 1] :: ind_map_from (c + lcnt i) (S g) nv (i' :: r')).
    remember (ind_map_from (c + lcnt i) (S g) nv (i' :: r')) as X eqn:EX.
    assert (HX : X <> []) by (subst X; simpl; discriminate).
    destruct X as [|x0 X0]; [congruence|].
    change (removelast (seq c (lcnt i) :: [nv + g * 2; nv + g * 2 + 1] :: x0 :: X0))
      with (seq c (lcnt i) :: [nv + g * 2; nv + g * 2 + 1] :: removelast (x0 :: X0)).
    cbn [concat]. rewrite IH. reflexivity.
Qed.

Lemma idx_struct : forall ins c g nv t i, nth_error ins t = Some i ->
  exists A B, idx_from c g nv ins = A ++ seq (c + sum_l (firstn t ins)) (lcnt i) ++ B
              /\ length A = loff ins t
              /\ (S t < length ins -> exists B2, B = [nv + (g + t) * 2; nv + (g + t) * 2 + 1] ++ B2).
Proof.
  induction ins as [|a r IH]; intros c g nv t i Ht; [destruct t; discriminate|].
  destruct t as [|t]; simpl in Ht.
  - inversion Ht; subst a. exists [].
    exists (match r with [] => [] | _ :: _ => [nv + g * 2; nv + g * 2 + 1] ++ idx_from (c + lcnt i) (S g) nv r end).
    simpl firstn. simpl sum_l. rewrite !Nat.add_0_r. repeat split.
    intros Hlen. destruct r as [|i' r']; [simpl in Hlen; lia|]. eexists. reflexivity.
  - destruct r as [|i' r']; [destruct t; discriminate|].
    destruct (IH (c + lcnt a) (S g) nv t i Ht) as [A [B [E [LA G]]]].
    exists (seq c (lcnt a) ++ [nv + g * 2; nv + g * 2 + 1] ++ A), B.
    split; [|split].
    + change (idx_from c g nv (a :: i' :: r'))
        with (seq c (lcnt a) ++ [nv + g * 2; nv + g * 2 + 1] ++ idx_from (c + lcnt a) (S g) nv (i' :: r')).
      rewrite E. change (sum_l (firstn (S t) (a :: i' :: r'))) with (lcnt a + sum_l (firstn t (i' :: r'))).
      rewrite Nat.add_assoc, <- !app_assoc. reflexivity.
    + rewrite !app_length, seq_length, LA, loff_S. simpl. lia.
    + intros Hlen. destruct G as [B2 EB]; [simpl in *; lia|]. exists B2. rewrite EB.
      replace (S g + t) with (g + S t) by lia. reflexivity.
Qed.

Lemma idx_bound : forall ins c g nv j, In j (idx_from c g nv ins) ->
  j < c + sum_l ins \/ (nv <= j /\ j + 2 < nv + (g + length ins) * 2).
Proof.
  induction ins as [|a r IH]; intros c g nv j H; [contradiction|].
  cbn [idx_from] in H. apply in_app_or in H as [H|H].
  - apply in_seq in H. left. simpl. lia.
  - destruct r as [|i' r']; [contradiction|].
    apply in_app_or in H as [H|H].
    + right. simpl in H. simpl length. lia.
    + destruct (IH _ _ _ _ H) as [H1|H1]; [left; simpl in *; lia | right; simpl length in *; lia].
Qed.

Lemma idx_length : forall ins c g nv, ins <> [] -> length (idx_from c g nv ins) + 2 = sum_l ins + 2 * length ins.
Proof.
  induction ins as [|a r IH]; intros c g nv Hne; [congruence|].
  destruct r as [|i' r'].
  - simpl. rewrite app_nil_r, seq_length. lia.
  - change (idx_from c g nv (a :: i' :: r'))
      with (seq c (lcnt a) ++ [nv + g * 2; nv + g * 2 + 1] ++ idx_from (c + lcnt a) (S g) nv (i' :: r')).
    rewrite !app_length, seq_length.
    assert (Hne' : i' :: r' <> []) by discriminate.
    pose proof (IH (c + lcnt a) (S g) nv Hne') as H.
    unfold sum_l in *. cbn [length fold_right] in *. lia.
Qed.

(* ---- 5.5 the re-ordered arrays ---- *)
Lemma slice_mid_all {A} : forall (X M Y : list A), slice (X ++ M ++ Y) (length X) (length M) = M.
Proof.
  intros X M Y. rewrite <- (Nat.add_0_r (length X)). rewrite slice_mid by lia.
  unfold slice. simpl. apply firstn_all.
Qed.

Section Data.
Variables (ins : list dinp) (N : nat).
Hypothesis Hk : 2 <= length ins.
Hypothesis Hd : Forall dwf ins.
Hypothesis HN : N = sum_l ins + 2 * (length ins - 1).

Definition st0 : mstate := {| md := []; vcount := 0; ccount := 0 |}.
Definition stf : mstate := fold_left (input_step 0 N) (map to_inp ins) st0.
Definition idx : list nat := idx_from 0 0 (sum_l ins) ins.

Lemma ind_idx_is : ind_idx N ins = idx.
Proof. unfold ind_idx, idx. rewrite ind_idx_eq. f_equal. lia. Qed.

Lemma wf_inputs : Forall wf_inp (map to_inp ins).
Proof.
  clear Hk HN. induction ins as [|a r IH]; [constructor|].
  inversion Hd; subst. constructor; [apply dwf_wf_inp; assumption | apply IH; assumption].
Qed.

Lemma ginv0 : GInv 0 N [] st0.
Proof.
  constructor; try reflexivity.
  - intros l v Hl. discriminate.
  - intros k' i' d' Hk'. destruct k'; discriminate.
Qed.

Lemma drape_room : forall c, total ([] ++ map to_inp ins) c <= shape 0 N c.
Proof. intros [|]; unfold shape; simpl app; [rewrite total_to_inp_cell; lia | rewrite total_to_inp_vert; lia]. Qed.

Lemma base_ginv : GInv 0 N (map to_inp ins) stf.
Proof. exact (ginv_fold 0 N (map to_inp ins) [] st0 (Forall_nil _) wf_inputs ginv0 drape_room). Qed.

Lemma base_binv : BInv (map to_inp ins) stf.
Proof.
  assert (HB0 : BInv [] st0) by (intros l' v' Hl'; discriminate).
  exact (binv_fold 0 N (map to_inp ins) [] st0 (Forall_nil _) wf_inputs ginv0 HB0 drape_room).
Qed.

Lemma base_all_len : all_len N (md stf).
Proof. apply fold_len; [constructor | exact Hd | simpl; lia]. Qed.

Lemma idx_lt : forall j, In j idx -> j < N.
Proof. intros j H. destruct (idx_bound _ _ _ _ _ H) as [H1|[H1 H2]]; lia. Qed.

Lemma idx_len : length idx = N.
Proof. pose proof (idx_length ins 0 0 (sum_l ins)) as H. unfold idx. destruct ins; [simpl in Hk; lia|]. specialize (H ltac:(discriminate)). lia. Qed.

(* an array of the intermediate result: one entry per output cell, blank from the end of the inputs' values on *)
Lemma base_entry : forall l v, lookup l (md stf) = Some v ->
  lren l = None /\ lcell l = true /\ length v = N /\ blank_from v (sum_l ins).
Proof.
  intros l v Hl. destruct base_ginv as [_ Gc Gwf _]. destruct (Gwf l v Hl) as [H1 [H2 H3]].
  destruct (lookup_in _ _ _ Hl) as [k0 Hin]. pose proof base_all_len as Hall. unfold all_len in Hall.
  rewrite Forall_forall in Hall. specialize (Hall _ Hin). simpl in Hall.
  assert (Hcell : lcell l = true).
  { destruct (lcell l); [reflexivity|]. unfold shape in H2. lia. }
  repeat split; try assumption.
  rewrite Hcell in H3. unfold cnt in H3. rewrite Gc, total_to_inp_cell in H3. exact H3.
Qed.

(* re-ordering: input t's cells move from the running offset without ghosts to the one with ghosts ... *)
Lemma reorder_slice : forall v v' t i, take v idx = Ok v' -> length v = N -> nth_error ins t = Some i ->
  slice v' (loff ins t) (lcnt i) = slice v (sum_l (firstn t ins)) (lcnt i).
Proof.
  intros v v' t i Ht Hl Hi. destruct (idx_struct ins 0 0 (sum_l ins) t i Hi) as [A [B [E [LA _]]]]. fold idx in E.
  rewrite E in Ht. destruct (take_app _ _ _ _ Ht) as [tA [t2 [H1 [H2 ->]]]].
  destruct (take_app _ _ _ _ H2) as [tS [tB [H3 [H4 ->]]]].
  rewrite take_seq in H3 by (pose proof (sum_l_firstn_le ins t i Hi); simpl; lia). inversion H3; subst tS. simpl.
  apply take_length in H1. rewrite <- LA, <- H1.
  assert (Hs : length (slice v (sum_l (firstn t ins)) (lcnt i)) = lcnt i).
  { unfold slice. rewrite firstn_length, skipn_length. pose proof (sum_l_firstn_le ins t i Hi). lia. }
  pose proof (slice_mid_all tA (slice v (sum_l (firstn t ins)) (lcnt i)) tB) as HM. rewrite Hs in HM. exact HM.
Qed.

(* ... and the two cells after them (when another input follows) take their values from the blank tail *)
Lemma reorder_ghost : forall v v' t i e, take v idx = Ok v' -> length v = N -> blank_from v (sum_l ins) ->
  nth_error ins t = Some i -> S t < length ins -> e < 2 ->
  nth_error v' (loff ins t + lcnt i + e) = Some None.
Proof.
  intros v v' t i e Ht Hl Hb Hi Hlt He.
  destruct (idx_struct ins 0 0 (sum_l ins) t i Hi) as [A [B [E [LA G]]]]. fold idx in E.
  destruct (G Hlt) as [B2 EB]. rewrite EB in E. clear G EB.
  rewrite E in Ht. destruct (take_app _ _ _ _ Ht) as [tA [t2 [H1 [H2 ->]]]].
  destruct (take_app _ _ _ _ H2) as [tS [tB [H3 [H4 ->]]]].
  simpl app in H4. destruct (take_cons _ _ _ _ H4) as [x0 [t3 [X0 [H5 ->]]]].
  destruct (take_cons _ _ _ _ H5) as [x1 [t4 [X1 [_ ->]]]].
  apply take_length in H1. apply take_length in H3. rewrite seq_length in H3.
  rewrite nth_error_app2 by lia. rewrite nth_error_app2 by lia.
  replace (loff ins t + lcnt i + e - length tA - length tS) with e by lia.
  rewrite Hb in X0 by lia. rewrite Hb in X1 by lia.
  destruct e as [|[|e]]; [simpl; congruence | simpl; congruence | lia].
Qed.

Lemma data_core : exists d',
  drape_data N ins = Ok d'
  /\ (forall l v', lookup l d' = Some v' -> exists v, lookup l (md stf) = Some v /\ take v idx = Ok v')
  /\ (forall l v, lookup l (md stf) = Some v -> exists v', lookup l d' = Some v' /\ take v idx = Ok v').
Proof.
  destruct (reorder_ok N idx (md stf) base_all_len idx_lt) as [d' Hd'].
  exists d'. unfold drape_data, base_data. rewrite ind_idx_is. fold st0. fold stf.
  split; [exact Hd'|]. pose proof (reorder_lookup _ _ _ Hd') as HL. split.
  - intros l v' H. rewrite HL in H. destruct (lookup l (md stf)) as [v|]; [|discriminate].
    exists v. split; [reflexivity|]. unfold tk in H. destruct (take v idx); [inversion H; reflexivity | discriminate].
  - intros l v H. rewrite HL, H. unfold tk.
    destruct (base_entry l v H) as [_ [_ [Hlen _]]].
    destruct (take_ok v idx) as [t Ht]; [intros j Hj; rewrite Hlen; apply idx_lt; exact Hj|].
    rewrite Ht. exists t. split; reflexivity.
Qed.

Section WithResult.
Variable d' : dict.
Hypothesis Hres : drape_data N ins = Ok d'.

Lemma res_entry : forall l v', lookup l d' = Some v' ->
  exists v, lookup l (md stf) = Some v /\ take v idx = Ok v'.
Proof.
  destruct data_core as [d2 [H1 [H2 _]]]. rewrite Hres in H1. inversion H1; subst d2. exact H2.
Qed.

Lemma res_of_base : forall l v, lookup l (md stf) = Some v -> exists v', lookup l d' = Some v' /\ take v idx = Ok v'.
Proof.
  destruct data_core as [d2 [H1 [_ H3]]]. rewrite Hres in H1. inversion H1; subst d2. exact H3.
Qed.

(* every data set of every input: same label, one entry per output cell, its values at its input's cells *)
Lemma drape_data_placed : forall t i d, nth_error ins t = Some i -> In d (dds i) ->
  exists v', lookup (lbl0 d) d' = Some v' /\ length v' = N /\ slice v' (loff ins t) (lcnt i) = dvals d.
Proof.
  intros t i d Ht Hin. destruct base_ginv as [_ _ _ Grec].
  destruct (Grec t (to_inp i) d (map_nth_error to_inp t ins Ht) Hin) as [v [Hl Hs]].
  assert (Hdi : dcell d = true /\ length (dvals d) = lcnt i).
  { rewrite Forall_forall in Hd. destruct (Hd i (nth_error_In _ _ Ht)) as [_ H]. rewrite Forall_forall in H. apply H. exact Hin. }
  destruct Hdi as [Hc Hlen]. rewrite Hc, doff_to_inp, Hlen in Hs.
  destruct (res_of_base _ _ Hl) as [v' [Hl' Htk]]. exists v'. split; [exact Hl'|].
  destruct (base_entry _ _ Hl) as [_ [_ [HlenN _]]].
  split; [rewrite (take_length _ _ _ Htk); apply idx_len|].
  rewrite (reorder_slice v v' t i Htk HlenN Ht). exact Hs.
Qed.

(* labels are never the renamed ones; arrays have one entry per output cell *)
Lemma drape_data_labels : forall l v', lookup l d' = Some v' -> lren l = None /\ lcell l = true /\ length v' = N.
Proof.
  intros l v' H. destruct (res_entry _ _ H) as [v [Hl Htk]].
  destruct (base_entry _ _ Hl) as [H1 [H2 _]]. repeat split; try assumption.
  rewrite (take_length _ _ _ Htk). apply idx_len.
Qed.

(* ghost cells hold the no-data value in every merged array *)
Lemma drape_data_ghost_blank : forall l v' t i e, lookup l d' = Some v' ->
  nth_error ins t = Some i -> S t < length ins -> e < 2 -> nth_error v' (loff ins t + lcnt i + e) = Some None.
Proof.
  intros l v' t i e H Ht Hlt He. destruct (res_entry _ _ H) as [v [Hl Htk]].
  destruct (base_entry _ _ Hl) as [_ [_ [H3 H4]]]. eapply reorder_ghost; eassumption.
Qed.

(* no-data over the cells of an input that lacks the label *)
Lemma drape_data_blank_elsewhere : forall l v' t i, lookup l d' = Some v' ->
  nth_error ins t = Some i -> (forall d, In d (dds i) -> lbl0 d <> l) ->
  all_none (slice v' (loff ins t) (lcnt i)) = true.
Proof.
  intros l v' t i H Ht Hno. destruct (res_entry _ _ H) as [v [Hl Htk]].
  destruct (base_entry _ _ Hl) as [_ [Hc [H3 _]]].
  rewrite (reorder_slice v v' t i Htk H3 Ht).
  pose proof (base_binv l v Hl t (to_inp i) (map_nth_error to_inp t ins Ht) Hno) as HB.
  rewrite Hc, doff_to_inp in HB. unfold isize in HB. simpl in HB. rewrite map_length in HB. exact HB.
Qed.
End WithResult.
End Data.

(* ====================================================================================================== *)
(* 6. merge_objects = create_object ; merge_data                                                           *)
(* ====================================================================================================== *)

Lemma drape_merge_inv : forall ins o, drape_merge ins = Ok o ->
  drape_create ins = Ok (oprisms o, olayers o) /\ drape_data (length (olayers o)) ins = Ok (odata o).
Proof.
  intros ins o H. unfold drape_merge in H.
  destruct (drape_create ins) as [[P L]|e]; [|discriminate].
  destruct (drape_data (length L) ins) as [d|e] eqn:E; [|discriminate].
  inversion H; subst o. simpl. split; [reflexivity | exact E].
Qed.

Lemma drape_merge_N : forall ins o, Forall gwf ins -> drape_merge ins = Ok o ->
  2 <= length ins /\ length (olayers o) = sum_l ins + 2 * (length ins - 1).
Proof.
  intros ins o Hwf H. destruct (drape_merge_inv _ _ H) as [Hc _].
  destruct (drape_create_inv ins _ _ Hwf Hc) as [Hn _]. split; [exact Hn|].
  apply (drape_counts ins (oprisms o) (olayers o) Hwf Hc).
Qed.

(* the merge of two or more well-formed drape models succeeds *)
Lemma drape_merge_total : forall ins, 2 <= length ins -> Forall gwf ins -> Forall dwf ins -> exists o, drape_merge ins = Ok o.
Proof.
  intros ins Hn Hg Hd. unfold drape_merge. pose proof (drape_create_spec ins Hn Hg) as Hc. rewrite Hc.
  destruct (spec_from 0 0 ins) as [P L] eqn:E.
  destruct (drape_counts ins P L Hg Hc) as [_ HL].
  destruct (data_core ins (length L) Hn Hd HL) as [d' [H1 _]]. rewrite H1. eexists. reflexivity.
Qed.

(* a valid drape model may consist of a single prism; the merger refuses those *)
Definition C16D_merge_total_full : Prop :=
  forall ins, 2 <= length ins -> Forall gwf1 ins -> Forall dwf ins -> exists o, drape_merge ins = Ok o.

Definition single_prism_witness : list dinp :=
  [ {| dps := [ {| px := 0; py := 0; ptop := 10; pfirst := 0; pcount := 2 |} ];
       dls := [ {| lcol := 0; lrow := 0; lbot := 5 |}; {| lcol := 0; lrow := 1; lbot := 3 |} ]; dds := [] |};
    {| dps := [ {| px := 5; py := 5; ptop := 20; pfirst := 0; pcount := 1 |};
                {| px := 6; py := 5; ptop := 21; pfirst := 1; pcount := 2 |};
                {| px := 8; py := 5; ptop := 22; pfirst := 3; pcount := 1 |} ];
       dls := [ {| lcol := 0; lrow := 0; lbot := 15 |}; {| lcol := 1; lrow := 0; lbot := 14 |};
                {| lcol := 1; lrow := 1; lbot := 13 |}; {| lcol := 2; lrow := 0; lbot := 12 |} ]; dds := [] |} ].

Lemma merge_total_refuted : ~ C16D_merge_total_full.
Proof.
  intros H. destruct (H single_prism_witness) as [o Ho].
  - simpl. lia.
  - repeat constructor; apply layout_fromb_ok; vm_compute; reflexivity.
  - repeat constructor.
  - vm_compute in Ho. discriminate.
Qed.

(* ====================================================================================================== *)
(* 7. the clauses, stated about drape_merge (what Properties/C16D.v exports)                               *)
(* ====================================================================================================== *)
Section Merged.
Variables (ins : list dinp) (o : dout).
Hypothesis Hg : Forall gwf ins.
Hypothesis Hm : drape_merge ins = Ok o.

Lemma m_create : drape_create ins = Ok (oprisms o, olayers o).
Proof. apply drape_merge_inv. exact Hm. Qed.

Lemma m_prism : forall t i j p, nth_error ins t = Some i -> nth_error (dps i) j = Some p ->
  nth_error (oprisms o) (poff ins t + j) = Some (shift_first (loff ins t) p).
Proof. exact (drape_prism ins (oprisms o) (olayers o) Hg m_create). Qed.

Lemma m_layer : forall t i j l, nth_error ins t = Some i -> nth_error (dls i) j = Some l ->
  nth_error (olayers o) (loff ins t + j) = Some (shift_col (poff ins t) l).
Proof. exact (drape_layer ins (oprisms o) (olayers o) Hg m_create). Qed.

Lemma m_owns : forall t i j p, nth_error ins t = Some i -> nth_error (dps i) j = Some p ->
  let p' := shift_first (loff ins t) p in
  slice (olayers o) (pfirst p') (pcount p') = map (shift_col (poff ins t)) (slice (dls i) (pfirst p) (pcount p))
  /\ length (slice (dls i) (pfirst p) (pcount p)) = pcount p
  /\ 1 <= pcount p
  /\ Forall (fun l => lcol l = poff ins t + j) (slice (olayers o) (pfirst p') (pcount p')).
Proof. exact (drape_prism_owns_layers ins (oprisms o) (olayers o) Hg m_create). Qed.

Lemma m_ghosts : forall t i i', nth_error ins t = Some i -> nth_error ins (S t) = Some i' ->
  exists front pprev plast p0 p1 back,
    dps i = front ++ [pprev; plast] /\ dps i' = p0 :: p1 :: back
    /\ let g := poff ins t + pcnt i in
       let gl := loff ins t + lcnt i in
       nth_error (oprisms o) g = Some (fst (ghost_point plast pprev gl g))
       /\ nth_error (olayers o) gl = Some (snd (ghost_point plast pprev gl g))
       /\ nth_error (oprisms o) (g + 1) = Some (fst (ghost_point p0 p1 (gl + 1) (g + 1)))
       /\ nth_error (olayers o) (gl + 1) = Some (snd (ghost_point p0 p1 (gl + 1) (g + 1))).
Proof. exact (drape_ghosts ins (oprisms o) (olayers o) Hg m_create). Qed.

Lemma m_counts : 2 <= length ins
  /\ length (oprisms o) = sum_p ins + 2 * (length ins - 1) /\ length (olayers o) = sum_l ins + 2 * (length ins - 1).
Proof.
  split; [apply (drape_merge_N ins o Hg Hm)|]. exact (drape_counts ins (oprisms o) (olayers o) Hg m_create).
Qed.

Lemma m_prisms_complete : forall q, q < length (oprisms o) ->
  (exists t i j, nth_error ins t = Some i /\ j < pcnt i /\ q = poff ins t + j)
  \/ (exists t i e, nth_error ins t = Some i /\ S t < length ins /\ e < 2 /\ q = poff ins t + pcnt i + e).
Proof. exact (drape_prisms_complete ins (oprisms o) (olayers o) Hg m_create). Qed.

Lemma m_layers_complete : forall q, q < length (olayers o) ->
  (exists t i j, nth_error ins t = Some i /\ j < lcnt i /\ q = loff ins t + j)
  \/ (exists t i e, nth_error ins t = Some i /\ S t < length ins /\ e < 2 /\ q = loff ins t + lcnt i + e).
Proof. exact (drape_layers_complete ins (oprisms o) (olayers o) Hg m_create). Qed.

Lemma m_canonical : layout_from 0 0 (oprisms o) (olayers o).
Proof. exact (drape_output_canonical ins (oprisms o) (olayers o) Hg m_create). Qed.

Hypothesis Hd : Forall dwf ins.

Lemma m_n2 : 2 <= length ins. Proof. apply (drape_merge_N ins o Hg Hm). Qed.
Lemma m_nl : length (olayers o) = sum_l ins + 2 * (length ins - 1). Proof. apply (drape_merge_N ins o Hg Hm). Qed.
Lemma m_data : drape_data (length (olayers o)) ins = Ok (odata o). Proof. apply drape_merge_inv. exact Hm. Qed.

Lemma m_data_placed : forall t i d, nth_error ins t = Some i -> In d (dds i) ->
  exists v, lookup (lbl0 d) (odata o) = Some v /\ length v = length (olayers o) /\ slice v (loff ins t) (lcnt i) = dvals d.
Proof. exact (drape_data_placed ins (length (olayers o)) m_n2 Hd m_nl (odata o) m_data). Qed.

Lemma m_data_labels : forall l v, lookup l (odata o) = Some v -> lren l = None /\ lcell l = true /\ length v = length (olayers o).
Proof. exact (drape_data_labels ins (length (olayers o)) m_n2 Hd m_nl (odata o) m_data). Qed.

Lemma m_data_ghost : forall l v t i e, lookup l (odata o) = Some v ->
  nth_error ins t = Some i -> S t < length ins -> e < 2 -> nth_error v (loff ins t + lcnt i + e) = Some None.
Proof. exact (drape_data_ghost_blank ins (length (olayers o)) m_n2 Hd m_nl (odata o) m_data). Qed.

Lemma m_data_blank : forall l v t i, lookup l (odata o) = Some v ->
  nth_error ins t = Some i -> (forall d, In d (dds i) -> lbl0 d <> l) ->
  all_none (slice v (loff ins t) (lcnt i)) = true.
Proof. exact (drape_data_blank_elsewhere ins (length (olayers o)) m_n2 Hd m_nl (odata o) m_data). Qed.
End Merged.
