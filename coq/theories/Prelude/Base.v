(* Shared prelude: stdlib only.  Definitions used by several models; small list lemmas. *)
From Coq Require Export List Arith ZArith NArith Bool Lia.
Export ListNotations.

Set Implicit Arguments.

(* ---- equality helpers used by the correspondence files (all computable) ---- *)
Fixpoint list_eqb {A} (eqb : A -> A -> bool) (l1 l2 : list A) : bool :=
  match l1, l2 with
  | [], [] => true
  | x :: r1, y :: r2 => eqb x y && list_eqb eqb r1 r2
  | _, _ => false
  end.

Definition option_eqb {A} (eqb : A -> A -> bool) (o1 o2 : option A) : bool :=
  match o1, o2 with
  | None, None => true
  | Some a, Some b => eqb a b
  | _, _ => false
  end.

Definition pair_eqb {A B} (ea : A -> A -> bool) (eb : B -> B -> bool) (p q : A * B) : bool :=
  ea (fst p) (fst q) && eb (snd p) (snd q).

Lemma list_eqb_spec {A} (eqb : A -> A -> bool) :
  (forall a b, eqb a b = true <-> a = b) ->
  forall l1 l2, list_eqb eqb l1 l2 = true <-> l1 = l2.
Proof.
  intros H l1; induction l1 as [|x r IH]; intros [|y r2]; simpl; split; intros E;
    try reflexivity; try discriminate.
  - apply andb_true_iff in E as [E1 E2]. apply H in E1. apply IH in E2. congruence.
  - inversion E; subst. apply andb_true_iff. split; [apply H; reflexivity | apply IH; reflexivity].
Qed.

(* ---- python-like slices ---- *)
Definition slice {A} (l : list A) (start len : nat) : list A := firstn len (skipn start l).

(* splice: l[start : start+len(v)] = v, for start + len v <= len l *)
Definition splice {A} (l : list A) (start : nat) (v : list A) : list A :=
  firstn start l ++ v ++ skipn (start + length v) l.

Lemma splice_length {A} (l v : list A) s : s + length v <= length l -> length (splice l s v) = length l.
Proof.
  intros H. unfold splice. rewrite !app_length, firstn_length, skipn_length. lia.
Qed.

Lemma slice_splice_same {A} (l v : list A) s :
  s + length v <= length l -> slice (splice l s v) s (length v) = v.
Proof.
  intros H. unfold slice, splice.
  rewrite skipn_app, firstn_length. replace (s - Nat.min s (length l)) with 0 by lia.
  rewrite skipn_all2 by (rewrite firstn_length; lia). simpl.
  rewrite firstn_app, Nat.sub_diag. simpl. rewrite firstn_all, app_nil_r. reflexivity.
Qed.

Lemma nth_error_firstn_lt {A} (l : list A) n i : i < n -> nth_error (firstn n l) i = nth_error l i.
Proof.
  revert n i; induction l as [|x r IH]; intros [|n] [|i] H; simpl; try reflexivity; try lia.
  apply IH; lia.
Qed.

Lemma nth_error_skipn_add {A} (l : list A) n i : nth_error (skipn n l) i = nth_error l (n + i).
Proof.
  revert l; induction n as [|n IH]; intros [|x r]; simpl; try reflexivity.
  - destruct i; reflexivity.
  - apply IH.
Qed.

Lemma nth_error_splice_in {A} (l v : list A) s i :
  s + length v <= length l -> i < length v -> nth_error (splice l s v) (s + i) = nth_error v i.
Proof.
  intros H Hi. unfold splice.
  rewrite nth_error_app2 by (rewrite firstn_length; lia).
  rewrite firstn_length. replace (s + i - Nat.min s (length l)) with i by lia.
  apply nth_error_app1; assumption.
Qed.

Lemma nth_error_splice_out {A} (l v : list A) s i :
  s + length v <= length l -> (i < s \/ s + length v <= i) -> nth_error (splice l s v) i = nth_error l i.
Proof.
  intros H [Hi|Hi]; unfold splice.
  - rewrite nth_error_app1 by (rewrite firstn_length; lia).
    apply nth_error_firstn_lt; lia.
  - rewrite nth_error_app2 by (rewrite firstn_length; lia).
    rewrite firstn_length.
    rewrite nth_error_app2 by lia.
    rewrite nth_error_skipn_add. f_equal. lia.
Qed.
