(* Model of geoh5py/shared/merging/drape_model.py  (property C16, drape models).
   Definitions only; proofs live in Proofs/MergeDrapeProofs.v.

   Python transcribed:
     BaseMerger.validate_objects           : fewer than two inputs -> ValueError
     DrapeModelMerger.create_object        : the loop over the inputs with the running offsets previous_prism /
                                             previous_layer, the pending "last ghost" of the input before, the
                                             "first ghost" of the current input, the in-place shifts of the
                                             (copied) prism / layer tables, and the final vstack
     DrapeModelMerger._ghost_point         : mirrored point, first layer / count / column / row / bottom
     DrapeModel.layers (setter)            : "Prism index must be monotonically increasing" -> ValueError
     DrapeModelMerger.merge_data           : BaseMerger.merge_data (re-used from Model/Merge.v: [input_step]) with
                                             one entry per output cell, then values[np.hstack(ind_map[:-1])] on
                                             every child

   Naming follows the code, where the names are crossed: [previous_prism] is added to column "First layer" of the
   prisms (so it is an offset counted in LAYERS) and [previous_layer] is added to column "I" (prism index) of the
   layers (so it is an offset counted in PRISMS).

   Index arithmetic is on [nat].  The only subtractions of the code, [previous_* - 1] and [previous_* - 2], are taken
   of numbers that were produced as [_ + 2] / [_ + 3] in the iteration before (the pending ghost exists only then), so
   truncation never happens; Proofs/MergeDrapeProofs.v never relies on it ([lia] sees the [+ 2]).                   *)
From GV Require Import Prelude.Base Model.Merge.

Inductive err := ValueError | IndexError.
Inductive res (A : Type) := Ok (a : A) | Err (e : err).
Arguments Ok {A} a.
Arguments Err {A} e.

(* prisms: Top easting, Top northing, Top elevation, First layer, Layer count *)
Record prism := { px : Z; py : Z; ptop : Z; pfirst : nat; pcount : nat }.
(* layers: I (prism index), K (depth index), Bottom elevation *)
Record layer := { lcol : nat; lrow : nat; lbot : Z }.
(* an input: prism table, layer table, numeric children (Merge.dat; association CELL is [dcell = true]) *)
Record dinp := { dps : list prism; dls : list layer; dds : list dat }.

Definition pcnt (i : dinp) : nat := length (dps i).
Definition lcnt (i : dinp) : nat := length (dls i).      (* DrapeModel.n_cells *)

(* temp_prisms[:, -2] += previous_prism ; temp_layers[:, 0] += previous_layer *)
Definition shift_first (n : nat) (p : prism) : prism :=
  {| px := px p; py := py p; ptop := ptop p; pfirst := pfirst p + n; pcount := pcount p |}.
Definition shift_col (n : nat) (l : layer) : layer :=
  {| lcol := lcol l + n; lrow := lrow l; lbot := lbot l |}.

(* _ghost_point(point, mirror, previous_prism, previous_layer) *)
Definition ghost_point (point mirror : prism) (pp pl : nat) : prism * layer :=
  let gx := (2 * px point - px mirror)%Z in
  let gy := (2 * py point - py mirror)%Z in
  let gz := (2 * ptop point - ptop mirror)%Z in
  ({| px := gx; py := gy; ptop := gz; pfirst := pp; pcount := 1 |},
   {| lcol := pl; lrow := 0; lbot := gz |}).

(* the loop of create_object.  pp = previous_prism, pl = previous_layer, gh = the pending (ghost_prism, ghost_layer)
   ([None] while ghost_prism.size = 0); the result lists are what the successive [prisms.append] / [layers.append]
   of this and the following iterations contribute, in order (np.vstack).
   temp_prisms[1] / temp_prisms[-2] / temp_layers[-1] on too short a table raise IndexError. *)
Fixpoint create_from (pp pl : nat) (gh : option (prism * layer)) (ins : list dinp)
  : res (list prism * list layer) :=
  match ins with
  | [] => Ok ([], [])
  | i :: r =>
      match dps i, rev (dps i), rev (dls i) with
      | p0 :: p1 :: _, plast :: pprev :: _, llast :: _ =>
          let pre :=
            match gh with
            | Some (gp, gl) =>
                let '(fp, fl) := ghost_point p0 p1 (pp - 1) (pl - 1) in ([gp; fp], [gl; fl])
            | None => ([], [])
            end in
          let tps := map (shift_first pp) (dps i) in
          let tls := map (shift_col pl) (dls i) in
          let tlast := shift_first pp plast in
          let tprev := shift_first pp pprev in
          let pp' := pcount tlast + pfirst tlast + 2 in
          let pl' := lcol (shift_col pl llast) + 3 in
          match create_from pp' pl' (Some (ghost_point tlast tprev (pp' - 2) (pl' - 2))) r with
          | Ok (P, L) => Ok (fst pre ++ tps ++ P, snd pre ++ tls ++ L)
          | Err e => Err e
          end
      | _, _, _ => Err IndexError
      end
  end.

(* DrapeModel.layers setter: any(np.diff(np.unique(xyz[:, 0])) != 1) -> ValueError.
   The sorted distinct values have all differences 1 iff every number between the least and the largest occurs. *)
Definition min_list (l : list nat) : nat := match l with [] => 0 | x :: r => fold_right Nat.min x r end.
Definition cols_consecutive (L : list layer) : bool :=
  match map lcol L with
  | [] => true                                                 (* np.diff of nothing: no complaint *)
  | c => forallb (fun x => existsb (Nat.eqb x) c) (seq (min_list c) (max_list c + 1 - min_list c))
  end.

Definition drape_create (ins : list dinp) : res (list prism * list layer) :=
  if length ins <? 2 then Err ValueError                       (* validate_objects *)
  else match create_from 0 0 None ins with
       | Ok (P, L) => if cols_consecutive L then Ok (P, L) else Err ValueError
       | Err e => Err e
       end.

(* ---------------- merge_data ---------------- *)
(* what BaseMerger.merge_data sees of a drape model: no vertices (n_vertices is None -> 0), n_cells = number of layers *)
Definition to_inp (i : dinp) : inp := {| vs := []; cs := map (fun _ => []) (dls i); ds := dds i |}.

(* super().merge_data(out_entity, input_entities) with out_entity.n_cells = N *)
Definition base_data (N : nat) (ins : list dinp) : dict :=
  md (fold_left (input_step 0 N) (map to_inp ins) {| md := []; vcount := 0; ccount := 0 |}).

(* ind_map += [arange(data_count, data_count + n_cells), [n_values + ghost*2, n_values + ghost*2 + 1]] *)
Fixpoint ind_map_from (count ghost nvalues : nat) (ins : list dinp) : list (list nat) :=
  match ins with
  | [] => []
  | i :: r => seq count (lcnt i) :: [nvalues + ghost * 2; nvalues + ghost * 2 + 1]
              :: ind_map_from (count + lcnt i) (S ghost) nvalues r
  end.

(* n_values = out_entity.n_cells - (len(input_entities) - 1) * 2 ;  np.hstack(ind_map[:-1]) *)
Definition ind_idx (N : nat) (ins : list dinp) : list nat :=
  concat (removelast (ind_map_from 0 0 (N - (length ins - 1) * 2) ins)).

(* values[idx] (fancy indexing): an index past the end raises IndexError *)
Fixpoint take (v : vals) (idx : list nat) : res vals :=
  match idx with
  | [] => Ok []
  | j :: r =>
      match nth_error v j, take v r with
      | Some x, Ok t => Ok (x :: t)
      | None, _ => Err IndexError
      | _, Err e => Err e
      end
  end.

Fixpoint reorder_all (idx : list nat) (d : dict) : res dict :=
  match d with
  | [] => Ok []
  | (l, v) :: r =>
      match take v idx, reorder_all idx r with
      | Ok v', Ok r' => Ok ((l, v') :: r')
      | Err e, _ => Err e
      | _, Err e => Err e
      end
  end.

Definition drape_data (N : nat) (ins : list dinp) : res dict :=
  reorder_all (ind_idx N ins) (base_data N ins).

(* merge_objects: create_object, then merge_data on the created object *)
Record dout := { oprisms : list prism; olayers : list layer; odata : dict }.

Definition drape_merge (ins : list dinp) : res dout :=
  match drape_create ins with
  | Err e => Err e
  | Ok (P, L) =>
      match drape_data (length L) ins with
      | Ok d => Ok {| oprisms := P; olayers := L; odata := d |}
      | Err e => Err e
      end
  end.

Definition drape_children (o : dout) : list (nat * bool * vals) :=
  map (fun '((n, _, _, c), v) => (n, c, v)) (odata o).

(* ---------------- well-formed inputs ----------------
   canonical layout (the one DrapeModel.centroids relies on): the layers come in blocks, one per prism, in prism
   order; prism j owns [pcount >= 1] layers starting at [pfirst] = number of layers before, all with column j.     *)
Fixpoint layout_from (j first : nat) (ps : list prism) (ls : list layer) : Prop :=
  match ps with
  | [] => ls = []
  | p :: r => pfirst p = first /\ 1 <= pcount p /\ pcount p <= length ls
              /\ Forall (fun l => lcol l = j) (firstn (pcount p) ls)
              /\ layout_from (S j) (first + pcount p) r (skipn (pcount p) ls)
  end.

Fixpoint layout_fromb (j first : nat) (ps : list prism) (ls : list layer) : bool :=
  match ps with
  | [] => match ls with [] => true | _ => false end
  | p :: r => Nat.eqb (pfirst p) first && (1 <=? pcount p) && (pcount p <=? length ls)
              && forallb (fun l => Nat.eqb (lcol l) j) (firstn (pcount p) ls)
              && layout_fromb (S j) (first + pcount p) r (skipn (pcount p) ls)
  end.

(* geometry: canonical layout; at least one prism *)
Definition gwf1 (i : dinp) : Prop := 1 <= pcnt i /\ layout_from 0 0 (dps i) (dls i).
(* geometry as the merger needs it: at least two prisms (a ghost is mirrored through the neighbouring prism) *)
Definition gwf (i : dinp) : Prop := 2 <= pcnt i /\ layout_from 0 0 (dps i) (dls i).
Definition gwfb (i : dinp) : bool := (2 <=? pcnt i) && layout_fromb 0 0 (dps i) (dls i).
(* data: CELL data, one value per cell, distinct (name, type, association) per input *)
Definition dwf (i : dinp) : Prop :=
  NoDup (map lbl0 (dds i)) /\ Forall (fun d => dcell d = true /\ length (dvals d) = lcnt i) (dds i).

(* ---------------- positions in the output ---------------- *)
(* input k's prisms start at poff, its layers (= cells) at loff: everything before it plus two ghosts per gap *)
Definition poff (ins : list dinp) (k : nat) : nat := fold_right (fun i a => pcnt i + 2 + a) 0 (firstn k ins).
Definition loff (ins : list dinp) (k : nat) : nat := fold_right (fun i a => lcnt i + 2 + a) 0 (firstn k ins).
Definition sum_p (ins : list dinp) : nat := fold_right (fun i a => pcnt i + a) 0 ins.
Definition sum_l (ins : list dinp) : nat := fold_right (fun i a => lcnt i + a) 0 ins.

(* ---------------- executable comparison used by the correspondence files ---------------- *)
Definition prism_eqb (a b : prism) : bool :=
  Z.eqb (px a) (px b) && Z.eqb (py a) (py b) && Z.eqb (ptop a) (ptop b)
  && Nat.eqb (pfirst a) (pfirst b) && Nat.eqb (pcount a) (pcount b).
Definition layer_eqb (a b : layer) : bool :=
  Nat.eqb (lcol a) (lcol b) && Nat.eqb (lrow a) (lrow b) && Z.eqb (lbot a) (lbot b).

(* observed outcome: Some (prisms, layers, children) or None with the error class (0 ValueError, 1 IndexError) *)
Definition err_code (e : err) : nat := match e with ValueError => 0 | IndexError => 1 end.

(* [stored]: the observation was made by a later reader of the file (children listed in name order: compared as a set) *)
Definition agree_drape (stored : bool) (ins : list dinp)
  (obs : (list prism * list layer * list (nat * bool * vals)) + nat) : bool :=
  match drape_merge ins, obs with
  | Ok o, inl (P, L, ch) =>
      list_eqb prism_eqb (oprisms o) P && list_eqb layer_eqb (olayers o) L
      && (if stored then same_children (drape_children o) ch else list_eqb child_eqb (drape_children o) ch)
  | Err e, inr c => Nat.eqb (err_code e) c
  | _, _ => false
  end.
