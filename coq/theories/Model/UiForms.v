(* UiForms — hand model of InputFile.ui_validation (the class-level InputValidation over the fixed table
   geoh5py/ui_json/constants.py::ui_validations with ignore_list = ("value",)), called by InputFile.numify on every
   nested dictionary of a ui.json  (properties C14, C15).  Definitions only.

   The rule table itself is not written here: tools/pylite/units.py::extract_tables re-reads the literal
   constants.py::ui_validations with `ast` on every run and emits coq/generated/Table_UiValidations.v
   (fail-closed on anything but strings / bools / lists / type names). *)
From Coq Require Import String.
From GV Require Import Prelude.Base Model.PyVal Model.Enforcers.
Local Open Scope string_scope.

Definition no_world : world := {| w_ents := []; w_desc := [] |}.
Definition ui_opts : iv_opts := {| ignore_requirements := false; ignore_list := [PStr "value"] |}.

(* InputFile.ui_validation(form) = InputFile._ui_validators(form) = validate_data(form) over `table` *)
Definition ui_validation_with (table : pv) (form : pv) : res pv :=
  match form with
  | PDict _ => snd (iv_validate_data no_world ui_opts table form)
  | PStr _ => Raise TypeError            (* __call__: validate(data, args) with missing value *)
  | _ => Raise ValueError
  end.
