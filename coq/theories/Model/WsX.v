(* Extended workspace / file model (property groups, copies) for C01, C02, C09 (definitions only).
   Everything in Model/Ws.v plus: per-object property groups (identifier, name, ordered member list) kept in the
   node attributes, PgAdd / PgRemove operations, the scrub of removed data from every group (an emptied group is
   deleted), and Copy of an object or of a whole group subtree with the fresh identifiers the code drew.

   Memory  = the live entity tree (what the API shows from ws.root down).
   File    = the geoh5 link graph: flat containers (one node per (kind, uid)) whose nodes carry attributes,
             an array token, an HDF5 address, and child links (kind, uid) -> address the link points to; a Root link.
   Pending = identifiers still registered in the workspace's weak-reference registries whose entity is dead
             (removed through its parent) and whose flat node has not been swept.

   Python transcribed (see DESIGN.md appendix D):
     Entity.create -> Workspace.create_entity -> constructor (parent.add_children, register) -> H5Writer.save_entity
       (write_entity: an existing flat node is returned UNTOUCHED; write_to_parent: link added if absent)
     scalar / array setters -> update_attribute -> H5Writer.update_field (write_attributes / write_array_attribute)
     Entity.parent setter (move) -> remove_child on the old parent, save_entity (link under the new parent)
     Workspace.remove_entity -> remove_recursively (all children, then) -> remove_child, H5Writer.remove_entity
     parent.remove_children([e]) -> remove_child only (flat node stays)
     listing getters ws.groups / ws.objects / ws.data -> remove_none_referents (sweep dead registered ids of one kind)
     close (sweeps groups only; save_entity(root) re-links what is missing) and open (load from Root by flat lookups). *)
From GV Require Import Prelude.Base.

Inductive kind := KG | KO | KD.
Definition kind_eqb (a b : kind) : bool :=
  match a, b with KG, KG | KO, KO | KD, KD => true | _, _ => false end.
Definition key : Type := (kind * N)%type.
Definition key_eqb (a b : key) : bool := kind_eqb (fst a) (fst b) && N.eqb (snd a) (snd b).

(* a property group: identifier, name, ordered members (data children of the object) *)
Definition pgroup : Type := (N * N * list key)%type.
Definition pg_id (g : pgroup) : N := fst (fst g).
Definition pg_name (g : pgroup) : N := snd (fst g).
Definition pg_members (g : pgroup) : list key := snd g.
Definition pgroup_eqb (a b : pgroup) : bool :=
  N.eqb (pg_id a) (pg_id b) && N.eqb (pg_name a) (pg_name b) && list_eqb key_eqb (pg_members a) (pg_members b).

Record attrs := { aname : N; adel : bool; aarr : N; apgs : list pgroup }.
Definition attrs_eqb (a b : attrs) : bool :=
  N.eqb (aname a) (aname b) && Bool.eqb (adel a) (adel b) && N.eqb (aarr a) (aarr b)
  && list_eqb pgroup_eqb (apgs a) (apgs b).

(* ---------------- memory: the entity tree ---------------- *)
Inductive tree := Node (k : key) (a : attrs) (kids : list tree).
Definition tkey (t : tree) : key := let 'Node k _ _ := t in k.
Definition tattrs (t : tree) : attrs := let 'Node _ a _ := t in a.
Definition tkids (t : tree) : list tree := let 'Node _ _ l := t in l.

Fixpoint keys_of (t : tree) : list key :=
  let 'Node k _ l := t in k :: flat_map keys_of l.

Fixpoint find (x : key) (t : tree) : option tree :=
  let 'Node k a l := t in
  if key_eqb x k then Some t
  else (fix go (l : list tree) : option tree :=
          match l with [] => None | c :: r => match find x c with Some s => Some s | None => go r end end) l.

(* apply f to the node with key x (first occurrence in pre-order) *)
Fixpoint upd (x : key) (f : tree -> tree) (t : tree) : tree :=
  let 'Node k a l := t in
  if key_eqb x k then f t
  else Node k a ((fix go (l : list tree) : list tree :=
                    match l with [] => [] | c :: r => upd x f c :: go r end) l).

(* remove the subtree rooted at x (never the root itself) *)
Fixpoint prune (x : key) (t : tree) : tree :=
  let 'Node k a l := t in
  Node k a ((fix go (l : list tree) : list tree :=
               match l with
               | [] => []
               | c :: r => if key_eqb x (tkey c) then go r else prune x c :: go r
               end) l).

Definition parent_of (x : key) (t : tree) : option key :=
  (fix go (fuel : list key) : option key :=
     match fuel with
     | [] => None
     | p :: r => match find p t with
                 | Some (Node _ _ l) => if existsb (fun c => key_eqb x (tkey c)) l then Some p else go r
                 | None => go r
                 end
     end) (keys_of t).

Definition add_kid (c : tree) (t : tree) : tree := let 'Node k a l := t in Node k a (l ++ [c]).
Definition set_attrs (a' : attrs) (t : tree) : tree := let 'Node k _ l := t in Node k a' l.

Definition mem_key (x : key) (l : list key) : bool := existsb (key_eqb x) l.

(* ---------------- file ---------------- *)
Record fnode := { fattrs : attrs; faddr : N; flinks : list (key * N) }.
Definition flatmap := list (key * fnode).

Fixpoint fget (x : key) (m : flatmap) : option fnode :=
  match m with [] => None | (k, n) :: r => if key_eqb x k then Some n else fget x r end.
Fixpoint fset (x : key) (n : fnode) (m : flatmap) : flatmap :=
  match m with
  | [] => [(x, n)]
  | (k, o) :: r => if key_eqb x k then (k, n) :: r else (k, o) :: fset x n r
  end.
Fixpoint fdel (x : key) (m : flatmap) : flatmap :=
  match m with [] => [] | (k, o) :: r => if key_eqb x k then r else (k, o) :: fdel x r end.

Fixpoint lget (x : key) (l : list (key * N)) : option N :=
  match l with [] => None | (k, a) :: r => if key_eqb x k then Some a else lget x r end.
Fixpoint ldel (x : key) (l : list (key * N)) : list (key * N) :=
  match l with [] => [] | (k, a) :: r => if key_eqb x k then r else (k, a) :: ldel x r end.

Record file := { flat : flatmap; rootlink : option (key * N); next : N }.

(* H5Writer.write_entity: an existing node is left untouched; a new node gets a fresh address and no links *)
Definition w_entity (x : key) (a : attrs) (f : file) : file :=
  match fget x (flat f) with
  | Some _ => f
  | None => {| flat := fset x {| fattrs := a; faddr := next f; flinks := [] |} (flat f);
               rootlink := rootlink f; next := N.succ (next f) |}
  end.

(* H5Writer.write_to_parent, linking part: add the hard link under the parent's node when the name is absent *)
Definition w_link (p x : key) (f : file) : file :=
  match fget p (flat f), fget x (flat f) with
  | Some pn, Some xn =>
      match lget x (flinks pn) with
      | Some _ => f
      | None => {| flat := fset p {| fattrs := fattrs pn; faddr := faddr pn; flinks := flinks pn ++ [(x, faddr xn)] |} (flat f);
                   rootlink := rootlink f; next := next f |}
      end
  | _, _ => f
  end.

(* H5Writer.remove_child *)
Definition w_unlink (p x : key) (f : file) : file :=
  match fget p (flat f) with
  | Some pn => {| flat := fset p {| fattrs := fattrs pn; faddr := faddr pn; flinks := ldel x (flinks pn) |} (flat f);
                  rootlink := rootlink f; next := next f |}
  | None => f
  end.

(* H5Writer.remove_entity on a flat container *)
Definition w_delete (x : key) (f : file) : file :=
  {| flat := fdel x (flat f); rootlink := rootlink f; next := next f |}.

(* H5Writer.update_field "attributes" (write_attributes): rewrites the scalar attributes of the target node only;
   update_field <array> (write_array_attribute / write_data_values): rewrites the array dataset of the target node only *)
Definition w_scalars (x : key) (a : attrs) (f : file) : file :=
  match fget x (flat f) with
  | Some n => {| flat := fset x {| fattrs := {| aname := aname a; adel := adel a; aarr := aarr (fattrs n); apgs := apgs (fattrs n) |};
                                   faddr := faddr n; flinks := flinks n |} (flat f);
                 rootlink := rootlink f; next := next f |}
  | None => f
  end.
Definition w_array (x : key) (a : attrs) (f : file) : file :=
  match fget x (flat f) with
  | Some n => {| flat := fset x {| fattrs := {| aname := aname (fattrs n); adel := adel (fattrs n); aarr := aarr a; apgs := apgs (fattrs n) |};
                                   faddr := faddr n; flinks := flinks n |} (flat f);
                 rootlink := rootlink f; next := next f |}
  | None => f
  end.

(* H5Writer.add_or_update_property_group / write_property_groups: rewrite the PropertyGroups block of the node only *)
Definition w_pgs (x : key) (a : attrs) (f : file) : file :=
  match fget x (flat f) with
  | Some n => {| flat := fset x {| fattrs := {| aname := aname (fattrs n); adel := adel (fattrs n); aarr := aarr (fattrs n); apgs := apgs a |};
                                   faddr := faddr n; flinks := flinks n |} (flat f);
                 rootlink := rootlink f; next := next f |}
  | None => f
  end.

(* one group block of the node: replace in place (same identifier) or append; delete by identifier *)
Fixpoint pg_put (g : pgroup) (l : list pgroup) : list pgroup :=
  match l with
  | [] => [g]
  | h :: r => if N.eqb (pg_id h) (pg_id g) then g :: r else h :: pg_put g r
  end.
Definition pg_del (gid : N) (l : list pgroup) : list pgroup := filter (fun h => negb (N.eqb (pg_id h) gid)) l.
Definition with_pgs (a : attrs) (l : list pgroup) : attrs := {| aname := aname a; adel := adel a; aarr := aarr a; apgs := l |}.

Definition w_pg_put (x : key) (g : pgroup) (f : file) : file :=
  match fget x (flat f) with
  | Some n => w_pgs x (with_pgs (fattrs n) (pg_put g (apgs (fattrs n)))) f
  | None => f
  end.
Definition w_pg_del (x : key) (gid : N) (f : file) : file :=
  match fget x (flat f) with
  | Some n => w_pgs x (with_pgs (fattrs n) (pg_del gid (apgs (fattrs n)))) f
  | None => f
  end.

(* ObjectBase.remove_data_from_groups(c) (repaired: iterates over a copy): every group listing c loses it; a group that
   becomes empty is removed (PropertyGroup.remove_properties -> Workspace.remove_entity(group)) *)
Definition rm_member (c : key) (l : list key) : list key :=
  (fix go (l : list key) : list key :=
     match l with [] => [] | h :: r => if key_eqb c h then r else h :: go r end) l.
Definition scrub (c : key) (l : list pgroup) : list pgroup :=
  flat_map (fun g => if mem_key c (pg_members g)
                     then match rm_member c (pg_members g) with [] => [] | ms => [(pg_id g, pg_name g, ms)] end
                     else [g]) l.
(* the file receives, group by group, what memory now says for the groups that listed c *)
Definition w_scrub (x : key) (c : key) (mem_pgs : list pgroup) (f : file) : file :=
  fold_left (fun f g => if mem_key c (pg_members g)
                        then match rm_member c (pg_members g) with
                             | [] => w_pg_del x (pg_id g) f
                             | ms => w_pg_put x (pg_id g, pg_name g, ms) f
                             end
                        else f) mem_pgs f.

(* ---------------- workspace state ---------------- *)
Record ws := { wmem : tree; wfile : file; wpend : list key }.

Definition rootkey : key := (KG, 0%N).
Definition root_attrs : attrs := {| aname := 0%N; adel := true; aarr := 0%N; apgs := [] |}.

Definition init : ws :=
  let f0 := {| flat := []; rootlink := None; next := 1%N |} in
  let f1 := w_entity rootkey root_attrs f0 in
  {| wmem := Node rootkey root_attrs [];
     wfile := {| flat := flat f1; rootlink := Some (rootkey, 1%N); next := next f1 |};
     wpend := [] |}.

Inductive outcome := Done | Refused | Raised.

Inductive op :=
| Create (k : kind) (u : N) (p : key) (name arr : N)
| SetName (e : key) (n : N)
| SetDel (e : key) (b : bool)
| SetArr (e : key) (a : N)
| Move (e q : key)
| RemoveWs (e : key)
| RemoveParent (e : key)
| Sweep (k : kind)
| Reopen
| PgAdd (o : key) (g name : N) (members : list key)   (* obj.add_data_to_group(members, name); g = identifier drawn if a group is created *)
| PgRemove (o : key) (g : N)                          (* ws.remove_entity(group) *)
| Copy (e q : key) (ids : list N).                    (* e.copy(parent=q) in the same workspace; ids = the fresh identifiers drawn, in creation order *)

Definition can_hold (p c : kind) : bool :=
  match p, c with KG, KG | KG, KO | KO, KD => true | _, _ => false end.

Definition rm_key (x : key) (l : list key) : list key := filter (fun k => negb (key_eqb x k)) l.

(* --- creation --- *)
Definition do_create (w : ws) (k : kind) (u : N) (p : key) (name arr : N) : ws * outcome :=
  let x := (k, u) in
  match find p (wmem w) with
  | None => (w, Refused)
  | Some _ =>
      if negb (can_hold (fst p) k) || mem_key x (keys_of (wmem w)) then (w, Refused)
      else
        let a := {| aname := name; adel := true; aarr := arr; apgs := [] |} in
        let f1 := w_entity x a (wfile w) in
        let f2 := w_link p x f1 in
        ({| wmem := upd p (add_kid (Node x a [])) (wmem w); wfile := f2; wpend := rm_key x (wpend w) |}, Done)
  end.

(* --- attribute setters --- *)
Definition do_set (w : ws) (e : key) (g : attrs -> attrs) (wr : key -> attrs -> file -> file) : ws * outcome :=
  match find e (wmem w) with
  | None => (w, Refused)
  | Some t =>
      if key_eqb e rootkey then (w, Refused) else
      let a := g (tattrs t) in
      ({| wmem := upd e (set_attrs a) (wmem w); wfile := wr e a (wfile w); wpend := wpend w |}, Done)
  end.

(* memory effect of a completed removal of x: its parent forgets it in its property groups, the subtree goes *)
Definition scrub_attrs (c : key) (t : tree) : tree := let 'Node k a l := t in Node k (with_pgs a (scrub c (apgs a))) l.
Definition forget (x : key) (m : tree) : tree :=
  let m1 := match fst x, parent_of x m with
            | KD, Some p => upd p (scrub_attrs x) m
            | _, _ => m
            end in
  prune x m1.

(* --- move --- *)
(* save_entity(e) after the move re-visits the whole subtree: write_entity (no-op for stored nodes, creates missing
   ones), then links each child under its parent when the link is absent *)
Fixpoint save_tree (p : key) (t : tree) (f : file) : file :=
  let 'Node k a l := t in
  let f1 := w_entity k a f in
  let f2 := (fix go (l : list tree) (f : file) : file :=
               match l with [] => f | c :: r => go r (save_tree k c f) end) l f1 in
  w_link p k f2.

Definition do_move (w : ws) (e q : key) : ws * outcome :=
  match find e (wmem w), find q (wmem w), parent_of e (wmem w) with
  | Some te, Some _, Some p =>
      if negb (can_hold (fst q) (fst e)) || mem_key q (keys_of te) then (w, Refused)
      else if key_eqb p q then (w, Done)   (* assigning the current parent again changes nothing *)
      else
        (* the parent setter calls current_parent.remove_children([self]): a data child is scrubbed from the old parent's
           property groups exactly as in a removal through the parent *)
        let ppgs := match find p (wmem w) with Some tp => apgs (tattrs tp) | None => [] end in
        let m1 := upd q (add_kid te) (forget e (wmem w)) in
        let f1 := w_unlink p e (match fst e with KD => w_scrub p e ppgs (wfile w) | _ => wfile w end) in
        let f2 := save_tree q te f1 in
        ({| wmem := m1; wfile := f2; wpend := wpend w |}, Done)
  | _, _, _ => (w, Refused)
  end.

(* --- removal through the workspace --- *)
(* rm_ws p t f : Workspace.remove_entity(t) where p is t's parent: refuse (UserWarning) when allow_delete is off,
   remove every child first (remove_recursively iterates over a copy of the children list since the repair
   "fix: remove_recursively iterates over a copy of the children list"), unlink from the parent, delete the flat node.
   The boolean is false when a non-deletable entity was met: the exception propagates and the caller stops there,
   leaving the effects of the removals already completed. *)
Fixpoint rm_ws (p : key) (ppgs : list pgroup) (t : tree) (f : file) : file * bool :=
  let 'Node k a l := t in
  if negb (adel a) then (f, false)
  else
    let '(f1, _, ok) :=
      (fix go (l : list tree) (st : file * list pgroup) : file * list pgroup * bool :=
         match l with
         | [] => (st, true)
         | c :: r =>
             let '(f0, pgs) := st in
             let '(f', ok) := rm_ws k pgs c f0 in
             if ok then go r (f', match fst (tkey c) with KD => scrub (tkey c) pgs | _ => pgs end) else ((f', pgs), false)
         end) l (f, apgs a) in
    if negb ok then (f1, false)
    else
      (* parent.remove_children([t]): a data child is first scrubbed from the parent's property groups *)
      let f2 := match fst k with KD => w_scrub p k ppgs f1 | _ => f1 end in
      (w_delete k (w_unlink p k f2), true).

(* the entities whose removal completed (they leave the tree), in order *)
Fixpoint rm_ws_done (t : tree) : list key * bool :=
  let 'Node k a l := t in
  if negb (adel a) then ([], false)
  else
    let '(dn, ok) :=
      (fix go (l : list tree) : list key * bool :=
         match l with
         | [] => ([], true)
         | c :: r => let '(d, ok) := rm_ws_done c in
                     if ok then let '(d', ok') := go r in (d ++ d', ok') else (d, false)
         end) l in
    if ok then ([k], true) else (dn, false).

Definition do_remove_ws (w : ws) (e : key) : ws * outcome :=
  match find e (wmem w), parent_of e (wmem w) with
  | Some te, Some p =>
      let ppgs := match find p (wmem w) with Some tp => apgs (tattrs tp) | None => [] end in
      let '(f', ok) := rm_ws p ppgs te (wfile w) in
      let '(gone, _) := rm_ws_done te in
      let m' := fold_left (fun m k => forget k m) gone (wmem w) in
      ({| wmem := m'; wfile := f'; wpend := wpend w |}, if ok then Done else Raised)
  | _, _ => (w, Refused)
  end.

(* --- removal through the parent --- *)
Definition do_remove_parent (w : ws) (e : key) : ws * outcome :=
  match find e (wmem w), parent_of e (wmem w) with
  | Some te, Some p =>
      let ppgs := match find p (wmem w) with Some tp => apgs (tattrs tp) | None => [] end in
      let f1 := match fst e with KD => w_scrub p e ppgs (wfile w) | _ => wfile w end in
      ({| wmem := forget e (wmem w); wfile := w_unlink p e f1; wpend := wpend w ++ keys_of te |}, Done)
  | _, _ => (w, Refused)
  end.

(* --- listing getter: sweep dead registered identifiers of one kind --- *)
Definition do_sweep (w : ws) (k : kind) : ws :=
  let dead := filter (fun x => kind_eqb (fst x) k) (wpend w) in
  {| wmem := wmem w;
     wfile := fold_left (fun f x => w_delete x f) dead (wfile w);
     wpend := filter (fun x => negb (kind_eqb (fst x) k)) (wpend w) |}.

(* --- close + open --- *)
(* load: from the Root link, follow child link names, reading every entity from the flat containers *)
(* HDF5 iterates a group's members by name: child containers "Data" < "Groups" < "Objects", then identifiers *)
Definition kind_rank (k : kind) : N := match k with KD => 0 | KG => 1 | KO => 2 end%N.
Definition key_leb (a b : key) : bool :=
  if N.eqb (kind_rank (fst a)) (kind_rank (fst b)) then N.leb (snd a) (snd b)
  else N.ltb (kind_rank (fst a)) (kind_rank (fst b)).
Fixpoint ins_link (x : key * N) (l : list (key * N)) : list (key * N) :=
  match l with
  | [] => [x]
  | y :: r => if key_leb (fst x) (fst y) then x :: l else y :: ins_link x r
  end.
Definition sort_links (l : list (key * N)) : list (key * N) := fold_right ins_link [] l.

(* The loader registers every entity once: an identifier already registered (seen) is not loaded again and is not
   attached to a second parent (Workspace.fetch_children: `get_entity(uid)` finds it, load_entity is skipped).
   Children are visited depth-first, in HDF5 name order.  Returns the subtree and the registered identifiers. *)
Fixpoint ins_pg (g : pgroup) (l : list pgroup) : list pgroup :=
  match l with [] => [g] | h :: r => if N.leb (pg_id g) (pg_id h) then g :: l else h :: ins_pg g r end.
Definition sort_pgs (l : list pgroup) : list pgroup := fold_right ins_pg [] l.

Fixpoint load (fuel : nat) (m : flatmap) (seen : list key) (x : key) : option (tree * list key) :=
  match fuel with
  | O => None
  | S fuel' =>
      match fget x m with
      | None => None
      | Some n =>
          let '(kids, seen') :=
            fold_left (fun (acc : list tree * list key) (l : key * N) =>
                         let '(ks, sn) := acc in
                         if mem_key (fst l) sn then (ks, sn)
                         else match load fuel' m sn (fst l) with
                              | Some (t, sn') => (ks ++ [t], sn')
                              | None => (ks, sn)
                              end)
                      (sort_links (flinks n)) ([], x :: seen) in
          Some (Node x (with_pgs (fattrs n) (sort_pgs (apgs (fattrs n)))) kids, seen')
      end
  end.

Definition close_file (w : ws) : ws :=
  let w1 := do_sweep w KG in
  let 'Node k a l := wmem w1 in
  let f1 := w_entity k a (wfile w1) in
  let f2 := fold_left (fun f c => save_tree k c f) l f1 in
  {| wmem := wmem w1; wfile := f2; wpend := wpend w1 |}.

Definition do_reopen (w : ws) : ws * outcome :=
  let w1 := close_file w in
  match rootlink (wfile w1) with
  | Some (r, _) =>
      match load (S (length (flat (wfile w1)))) (flat (wfile w1)) [] r with
      | Some (t, _) => ({| wmem := t; wfile := wfile w1; wpend := [] |}, Done)
      | None => (w1, Raised)
      end
  | None => (w1, Raised)
  end.

(* --- property groups --- *)
Definition kid_keys (t : tree) : list key := map tkey (tkids t).
Fixpoint pg_by_name (name : N) (l : list pgroup) : option pgroup :=
  match l with [] => None | h :: r => if N.eqb (pg_name h) name then Some h else pg_by_name name r end.
Fixpoint add_new (l : list key) (new : list key) : list key :=
  match new with [] => l | h :: r => if mem_key h l then add_new l r else add_new (l ++ [h]) r end.

Definition do_pg_add (w : ws) (o : key) (g name : N) (ms : list key) : ws * outcome :=
  match find o (wmem w) with
  | Some t =>
      if negb (kind_eqb (fst o) KO) then (w, Refused) else
      let valid := filter (fun m => kind_eqb (fst m) KD && mem_key m (kid_keys t)) ms in
      match valid with
      | [] => (w, Raised)                       (* "No children data found on the parent object" *)
      | _ =>
          let pgs := apgs (tattrs t) in
          let g0 := match pg_by_name name pgs with Some h => h | None => (g, name, []) end in
          let g1 := (pg_id g0, pg_name g0, add_new (pg_members g0) valid) in
          let pgs' := pg_put g1 pgs in
          ({| wmem := upd o (fun t => set_attrs (with_pgs (tattrs t) pgs') t) (wmem w);
              wfile := w_pg_put o g1 (wfile w); wpend := wpend w |}, Done)
      end
  | None => (w, Refused)
  end.

Definition do_pg_remove (w : ws) (o : key) (g : N) : ws * outcome :=
  match find o (wmem w) with
  | Some t =>
      if existsb (fun h => N.eqb (pg_id h) g) (apgs (tattrs t))
      then ({| wmem := upd o (fun t => set_attrs (with_pgs (tattrs t) (pg_del g (apgs (tattrs t)))) t) (wmem w);
               wfile := w_pg_del o g (wfile w); wpend := wpend w |}, Done)
      else (w, Refused)
  | None => (w, Refused)
  end.

(* --- copy within the workspace --- *)
(* copy_sub t ids = (copy of the subtree with the drawn identifiers, identifiers left): an object draws one identifier for
   itself, one per data child, then one per property group (members remapped through the children map); a group draws its
   own and then copies every child in turn *)
Fixpoint assoc_key (x : key) (m : list (key * key)) : option key :=
  match m with [] => None | (a, b) :: r => if key_eqb x a then Some b else assoc_key x r end.
Definition remap (m : list (key * key)) (l : list key) : list key :=
  flat_map (fun x => match assoc_key x m with Some y => [y] | None => [] end) l.

Fixpoint copy_sub (t : tree) (ids : list N) : option (tree * list N) :=
  let 'Node k a l := t in
  match ids with
  | [] => None
  | i :: ids1 =>
      match fst k with
      | KG =>
          match (fix go (l : list tree) (ids : list N) : option (list tree * list N) :=
                   match l with
                   | [] => Some ([], ids)
                   | c :: r => match copy_sub c ids with
                               | Some (c', ids') => match go r ids' with Some (r', ids'') => Some (c' :: r', ids'') | None => None end
                               | None => None
                               end
                   end) l ids1 with
          | Some (l', ids2) => Some (Node (KG, i) (with_pgs a []) l', ids2)
          | None => None
          end
      | KD => Some (Node (KD, i) (with_pgs a []) [], ids1)
      | KO =>
          let n := length l in
          if Nat.ltb (length ids1) (n + length (apgs a)) then None else
          let kid_ids := firstn n ids1 in
          let pg_ids := firstn (length (apgs a)) (skipn n ids1) in
          let rest := skipn (n + length (apgs a)) ids1 in
          let l' := map (fun '(c, j) => Node (KD, j) (with_pgs (tattrs c) []) []) (combine l kid_ids) in
          let cmap := map (fun '(c, j) => (tkey c, (KD, j))) (combine l kid_ids) in
          let pgs' := map (fun '(g, j) => (j, pg_name g, remap cmap (pg_members g))) (combine (apgs a) pg_ids) in
          Some (Node (KO, i) (with_pgs a pgs') l', rest)
      end
  end.

(* the file receives every entity of the copy the way a creation does (node, link under its parent), children after their
   parent, then the object's property-group blocks *)
Fixpoint save_copy (p : key) (t : tree) (f : file) : file :=
  let 'Node k a l := t in
  let f1 := w_link p k (w_entity k (with_pgs a []) f) in
  let f2 := (fix go (l : list tree) (f : file) : file :=
               match l with [] => f | c :: r => go r (save_copy k c f) end) l f1 in
  let f3 := fold_left (fun f g => w_pg_put k g f) (apgs a) f2 in
  (* ObjectBase.copy: `if self.property_groups: copy_property_groups(...); update_attribute(new_object, "property_groups")`
     -> H5Writer.write_property_groups DELETES the node's whole PropertyGroups container and rewrites it from memory: on a
     stale node (identifier re-use) the old blocks disappear; nothing is rewritten when the source has no property group *)
  match apgs a with [] => f3 | _ => w_pgs k a f3 end.

Definition do_copy (w : ws) (e q : key) (ids : list N) : ws * outcome :=
  match find e (wmem w), find q (wmem w) with
  | Some te, Some _ =>
      if negb (can_hold (fst q) (fst e)) || mem_key q (keys_of te) || key_eqb e rootkey then (w, Refused)
      else match copy_sub te ids with
           | Some (t', []) =>
               if existsb (fun k => mem_key k (keys_of (wmem w))) (keys_of t') then (w, Refused)
               else ({| wmem := upd q (add_kid t') (wmem w); wfile := save_copy q t' (wfile w);
                        wpend := filter (fun k => negb (mem_key k (keys_of t'))) (wpend w) |}, Done)
           | _ => (w, Refused)
           end
  | _, _ => (w, Refused)
  end.

Definition step (w : ws) (o : op) : ws * outcome :=
  match o with
  | Create k u p n a => do_create w k u p n a
  | SetName e n => do_set w e (fun a => {| aname := n; adel := adel a; aarr := aarr a; apgs := apgs a |}) w_scalars
  | SetDel e b => do_set w e (fun a => {| aname := aname a; adel := b; aarr := aarr a; apgs := apgs a |}) w_scalars
  | SetArr e v => do_set w e (fun a => {| aname := aname a; adel := adel a; aarr := v; apgs := apgs a |}) w_array
  | PgAdd o g name ms => do_pg_add w o g name ms
  | PgRemove o g => do_pg_remove w o g
  | Copy e q ids => do_copy w e q ids
  | Move e q => do_move w e q
  | RemoveWs e => if key_eqb e rootkey then (w, Refused) else do_remove_ws w e
  | RemoveParent e => if key_eqb e rootkey then (w, Refused) else do_remove_parent w e
  | Sweep k => (do_sweep w k, Done)
  | Reopen => do_reopen w
  end.

Definition run (ops : list op) (w : ws) : ws := fold_left (fun w o => fst (step w o)) ops w.

(* ---------------- observations (what the driver dumps) ---------------- *)
(* memory dump: one row per entity in pre-order: key, attrs, parent key, children keys *)
Fixpoint dump_mem (p : key) (t : tree) : list (key * attrs * key * list key) :=
  let 'Node k a l := t in (k, a, p, map tkey l) :: flat_map (dump_mem k) l.

(* file dump: per flat node: key, attrs, links as (child key, link address = address of the child's flat node?) *)
Definition link_state (m : flatmap) (l : key * N) : key * option bool :=
  match fget (fst l) m with
  | Some n => (fst l, Some (N.eqb (snd l) (faddr n)))
  | None => (fst l, None)
  end.
Definition dump_file (f : file) : list (key * attrs * list (key * option bool)) * option (key * option bool) :=
  (map (fun '(k, n) => (k, fattrs n, map (link_state (flat f)) (flinks n))) (flat f),
   match rootlink f with Some l => Some (link_state (flat f) l) | None => None end).

(* ====================================================================================================== *)
(* Two workspaces and copies between them (Workspace.copy_to_parent's identifier rule)                     *)
(* ====================================================================================================== *)
(* A copy into ANOTHER workspace keeps the source's identifier whenever `target.get_entity(uid)` finds nothing:
   the look-up walks the target's registries of weak references — an identifier whose entity is dead is dropped from
   the registry on the way (weakref_utils.get_clean_ref) and counts as free, although its flat node may still be in
   the target's file.  Property groups follow the same rule on their own registry (find_property_group). *)
Record world := { wa : ws; wb : ws }.
Definition wsel (i : bool) (W : world) : ws := if i then wb W else wa W.
Definition wput (i : bool) (w : ws) (W : world) : world :=
  if i then {| wa := wa W; wb := w |} else {| wa := w; wb := wb W |}.

Fixpoint all_pg_ids (t : tree) : list N :=
  let 'Node _ a l := t in map pg_id (apgs a) ++ flat_map all_pg_ids l.
Definition memN (x : N) (l : list N) : bool := existsb (N.eqb x) l.

(* choose an identifier: the source's when free among [used], else the next drawn one *)
Definition pick (used : list N) (src : N) (ids : list N) : option (N * list N) :=
  if memN src used then match ids with [] => None | i :: r => Some (i, r) end else Some (src, ids).

(* copy_x used pgused t ids = (copy, entity identifiers now in use, group identifiers now in use, identifiers left) *)
Fixpoint copy_x (used pgused : list N) (t : tree) (ids : list N) : option (tree * list N * list N * list N) :=
  let 'Node k a l := t in
  match pick used (snd k) ids with
  | None => None
  | Some (i, ids1) =>
      let used1 := i :: used in
      match fst k with
      | KD => Some (Node (KD, i) (with_pgs a []) [], used1, pgused, ids1)
      | KG =>
          match (fix go (l : list tree) (st : list N * list N * list N) : option (list tree * list N * list N * list N) :=
                   match l with
                   | [] => let '(u, pu, r) := st in Some ([], u, pu, r)
                   | c :: rest =>
                       let '(u, pu, r) := st in
                       match copy_x u pu c r with
                       | Some (c', u', pu', r') =>
                           match go rest (u', pu', r') with
                           | Some (l', u'', pu'', r'') => Some (c' :: l', u'', pu'', r'')
                           | None => None
                           end
                       | None => None
                       end
                   end) l (used1, pgused, ids1) with
          | Some (l', u', pu', r') => Some (Node (KG, i) (with_pgs a []) l', u', pu', r')
          | None => None
          end
      | KO =>
          (* data children one by one, then the property groups, members remapped through the children map *)
          match (fix go (l : list tree) (st : list N * list N) : option (list (tree * key) * list N * list N) :=
                   match l with
                   | [] => Some ([], fst st, snd st)
                   | c :: rest =>
                       match pick (fst st) (snd (tkey c)) (snd st) with
                       | Some (j, r) =>
                           match go rest (j :: fst st, r) with
                           | Some (l', u', r') => Some ((Node (KD, j) (with_pgs (tattrs c) []) [], tkey c) :: l', u', r')
                           | None => None
                           end
                       | None => None
                       end
                   end) l (used1, ids1) with
          | Some (kids, u', r') =>
              let cmap := map (fun p => (snd p, tkey (fst p))) kids in
              match (fix gp (gs : list pgroup) (st : list N * list N) : option (list pgroup * list N * list N) :=
                       match gs with
                       | [] => Some ([], fst st, snd st)
                       | g :: rest =>
                           match pick (fst st) (pg_id g) (snd st) with
                           | Some (j, r) =>
                               match gp rest (j :: fst st, r) with
                               | Some (gs', pu', r'') => Some ((j, pg_name g, remap cmap (pg_members g)) :: gs', pu', r'')
                               | None => None
                               end
                           | None => None
                           end
                       end) (apgs a) (pgused, r') with
              | Some (pgs', pu', r'') => Some (Node (KO, i) (with_pgs a pgs') (map fst kids), u', pu', r'')
              | None => None
              end
          | None => None
          end
      end
  end.

Definition do_copy_x (src tgt : ws) (e q : key) (ids : list N) : ws * outcome :=
  match find e (wmem src), find q (wmem tgt) with
  | Some te, Some _ =>
      if negb (can_hold (fst q) (fst e)) || key_eqb e rootkey then (tgt, Refused)
      else
        let used := map snd (keys_of (wmem tgt)) in
        match copy_x used (all_pg_ids (wmem tgt)) te ids with
        | Some (t', _, _, []) =>
            ({| wmem := upd q (add_kid t') (wmem tgt); wfile := save_copy q t' (wfile tgt);
                (* every look-up of a copied identifier forgets a dead registry entry of that identifier, of any kind *)
                wpend := filter (fun k => negb (memN (snd k) (map snd (keys_of te)))) (wpend tgt) |}, Done)
        | _ => (tgt, Refused)
        end
  | _, _ => (tgt, Refused)
  end.

Inductive wop :=
| On (i : bool) (o : op)                               (* an operation of workspace i *)
| CopyX (i : bool) (e q : key) (ids : list N).         (* e.copy(parent=q) with e in workspace i and q in the other one *)

Definition wstep (W : world) (o : wop) : world * outcome :=
  match o with
  | On i o' => let '(w', oc) := step (wsel i W) o' in (wput i w' W, oc)
  | CopyX i e q ids => let '(t', oc) := do_copy_x (wsel i W) (wsel (negb i) W) e q ids in (wput (negb i) t' W, oc)
  end.

Definition winit : world := {| wa := init; wb := init |}.
Definition wrun (ops : list wop) (W : world) : world := fold_left (fun W o => fst (wstep W o)) ops W.
