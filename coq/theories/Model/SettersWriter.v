(* C03 — source-tied model of the WRITER side that the setter table (Model/Setters.v) treats as routing only:
   (1) how H5Writer.write_attributes encodes one scalar attribute (the if/elif chain on the Python type of the value,
       extracted from the source into a branch table), and
   (2) the statement skeleton of the dataset writers (write_value_map, write_color_map, write_array_attribute,
       write_data_values): what is deleted before what is returned / re-created.
   Definitions only. *)
From GV Require Import Prelude.Base.
From Coq Require Import String.

(* ------------------------------------------------------------------ (1) scalar attributes *)
(* Python/numpy type of the value that reaches the chain (after as_str_if_uuid / KEY_MAP[enum.name]) *)
Inductive vtag := TBool | TNpBool | TNpInt8 | TNpInt | TInt | TFloat | TNpFloat | TStr | TOther.

Record sval := { s_tag : vtag; s_int : Z; s_frac : bool (* a float with a fractional part: s_int is its floor *) ; s_txt : N;
                 s_nul : bool (* a text with an embedded NUL character: h5py refuses it *) }.

(* HDF5 type of a stored attribute *)
Inductive htype := HInt8 | HInt64 | HFloat64 | HStr | HNative.
Record stored := { h_type : htype; h_int : Z; h_frac : bool; h_txt : N }.

Inductive guard :=
| GIsinstance (tags : list vtag)      (* isinstance(value, (...)) *)
| GExists                             (* key in entity_handle.attrs *)
| GElse
| GBadGuard.

Inductive action :=
| ACreateInt8        (* attrs.create(key, int(value), dtype="int8") *)
| ACreateStr         (* attrs.create(key, value, dtype=str_type) *)
| ACreateNative      (* attrs.create(key, value, dtype=np.asarray(value).dtype) *)
| AModify            (* attrs.modify(key, value): keeps the HDF5 type the attribute was first stored with.  NOT in today's
                        source: AModify and GExists exist so that the table can express such a change of the chain (a seeded
                        mutant did exactly this) and [table_ok] then fails, instead of the extractor having to refuse *)
| ABadAction.

Definition tag_eqb (a b : vtag) : bool :=
  match a, b with
  | TBool, TBool | TNpBool, TNpBool | TNpInt8, TNpInt8 | TNpInt, TNpInt | TInt, TInt | TFloat, TFloat
  | TNpFloat, TNpFloat | TStr, TStr | TOther, TOther => true
  | _, _ => false
  end.

Definition guard_holds (g : guard) (t : vtag) (exists_ : bool) : bool :=
  match g with
  | GIsinstance tags => existsb (tag_eqb t) tags
  | GExists => exists_
  | GElse => true
  | GBadGuard => true
  end.

Fixpoint select (T : list (guard * action)) (t : vtag) (exists_ : bool) : action :=
  match T with
  | [] => ABadAction
  | (GBadGuard, _) :: _ => ABadAction
  | (g, a) :: r => if guard_holds g t exists_ then a else select r t exists_
  end.

Definition native (t : vtag) : htype :=
  match t with
  | TBool | TNpBool => HNative | TNpInt8 => HInt8 | TNpInt | TInt => HInt64 | TFloat | TNpFloat => HFloat64
  | TStr => HStr | TOther => HNative
  end.

Definition wrap8 (z : Z) : Z := ((z + 128) mod 256 - 128)%Z.

(* the value as cast into a given HDF5 type *)
Definition cast (h : htype) (v : sval) : stored :=
  match h with
  | HInt8 => {| h_type := HInt8; h_int := wrap8 (s_int v); h_frac := false; h_txt := 0%N |}
  | HInt64 => {| h_type := HInt64; h_int := s_int v; h_frac := false; h_txt := 0%N |}
  | HFloat64 => {| h_type := HFloat64; h_int := s_int v; h_frac := s_frac v; h_txt := 0%N |}
  | HStr => {| h_type := HStr; h_int := 0%Z; h_frac := false; h_txt := s_txt v |}
  | HNative => {| h_type := HNative; h_int := s_int v; h_frac := s_frac v; h_txt := s_txt v |}
  end.

Definition do_action (a : action) (old : option stored) (v : sval) : option stored :=
  match a with
  | ACreateInt8 => Some (cast HInt8 v)
  | ACreateStr => Some (cast HStr v)
  | ACreateNative => Some (cast (native (s_tag v)) v)
  | AModify => match old with Some o => Some (cast (h_type o) v) | None => None (* KeyError *) end
  | ABadAction => None
  end.

(* write_attributes on one key: None is skipped when the source says so (the old attribute stays) *)
Definition write_scalar (T : list (guard * action)) (old : option stored) (v : sval) : option stored :=
  do_action (select T (s_tag v) (match old with Some _ => true | None => false end)) old v.

(* one key of write_attributes with an optional value: `or value is None: continue` leaves the old attribute *)
Definition write_attr (T : list (guard * action)) (skip_none : bool) (old : option stored) (v : option sval) : option (option stored) :=
  match v with
  | Some x => match write_scalar T old x with Some st => Some (Some st) | None => None end
  | None => if skip_none then Some old else Some None
  end.

(* what a reader gets back equals the value (numerically / textually) *)
Definition faithful (st : stored) (v : sval) : Prop :=
  match s_tag v with
  | TStr => h_txt st = s_txt v
  | _ => h_int st = s_int v /\ h_frac st = s_frac v
  end.

Definition faithfulb (st : stored) (v : sval) : bool :=
  match s_tag v with
  | TStr => N.eqb (h_txt st) (s_txt v)
  | _ => Z.eqb (h_int st) (s_int v) && Bool.eqb (h_frac st) (s_frac v)
  end.

(* well-formed values of each type *)
Definition wf (v : sval) : Prop :=
  match s_tag v with
  | TBool | TNpBool => (s_int v = 0 \/ s_int v = 1)%Z /\ s_frac v = false
  | TNpInt8 => (-128 <= s_int v < 128)%Z /\ s_frac v = false
  | TNpInt | TInt => (- 2 ^ 63 <= s_int v < 2 ^ 63)%Z /\ s_frac v = false   (* beyond int64 np.asarray gives an object array: TypeError *)
  | TStr => s_nul v = false                                                  (* h5py: "VLEN strings do not support embedded NULLs" *)
  | TOther => False
  | _ => True
  end.

Definition action_ok (a : action) (t : vtag) : bool :=
  match a, t with
  | ACreateNative, TOther => false
  | ACreateNative, _ => true
  | ACreateStr, TStr => true
  | ACreateInt8, (TBool | TNpBool | TNpInt8) => true
  | _, _ => false
  end.

Definition all_tags : list vtag := [TBool; TNpBool; TNpInt8; TNpInt; TInt; TFloat; TNpFloat; TStr].

(* the extracted chain writes every type faithfully, whatever was stored before *)
Definition table_ok (T : list (guard * action)) : bool :=
  forallb (fun t => action_ok (select T t false) t && action_ok (select T t true) t) all_tags.

(* ------------------------------------------------------------------ (2) dataset writers *)
Inductive wstep :=
| WRetNoHandle          (* if handle is None: return *)
| WRetIfNone            (* if <value> is None ...: return *)
| WDelete               (* del handle[KEY] (try/except KeyError, or guarded by `in`) *)
| WCreateIfSome         (* if <value> is not None ...: create_dataset *)
| WCreate               (* create_dataset on every remaining branch *)
| WBad.

Inductive wstate := Kept | Absent | New | Crash.

Fixpoint wrun (steps : list wstep) (old_some v_some : bool) (s : wstate) : wstate :=
  match steps with
  | [] => s
  | WRetNoHandle :: r => wrun r old_some v_some s
  | WRetIfNone :: r => if v_some then wrun r old_some v_some s else s
  | WDelete :: r => match s with Crash => Crash | _ => wrun r old_some v_some Absent end
  | WCreateIfSome :: r =>
      if v_some then
        match s with
        | Kept => if old_some then Crash (* h5py refuses to create over an existing name *) else wrun r old_some v_some New
        | Absent => wrun r old_some v_some New
        | New => Crash
        | Crash => Crash
        end
      else wrun r old_some v_some s
  | WCreate :: r =>
      if v_some then
        match s with
        | Kept => if old_some then Crash else wrun r old_some v_some New
        | Absent => wrun r old_some v_some New
        | _ => Crash
        end
      else Crash
  | WBad :: _ => Crash
  end.

Definition is_some {A} (o : option A) : bool := match o with Some _ => true | None => false end.

(* what the file holds after the routine ran with value v over a file that held old (None = crashed) *)
Definition wfinal {A} (steps : list wstep) (old v : option A) : option (option A) :=
  match wrun steps (is_some old) (is_some v) Kept with
  | Kept => Some old
  | Absent => Some None
  | New => Some v
  | Crash => None
  end.

Definition wcase_ok (steps : list wstep) (old_some v_some : bool) : bool :=
  match wrun steps old_some v_some Kept with
  | New => v_some
  | Absent => negb v_some
  | Kept => negb old_some && negb v_some
  | Crash => false
  end.

Definition writer_ok (steps : list wstep) : bool :=
  wcase_ok steps false false && wcase_ok steps false true && wcase_ok steps true false && wcase_ok steps true true.

(* ------------------------------------------------------------------ comparison with the harness *)
(* a typed assignment observed on the real code: the raw HDF5 type the attribute had before, the value class
   assigned, and whether the file holds that value afterwards *)
Definition check_scalar (T : list (guard * action)) (skip_none : bool) (old : option htype) (v : option sval) (persisted : bool) : bool :=
  match v with
  | None => (* None assigned: skipped (old stays) or - when the source clears the attribute first - gone *)
      if skip_none then Bool.eqb persisted (negb (is_some old)) else persisted
  | Some x =>
      let o := match old with Some h => Some {| h_type := h; h_int := 0%Z; h_frac := false; h_txt := 0%N |} | None => None end in
      match write_scalar T o x with
      | Some st => Bool.eqb persisted (faithfulb st x)
      | None => negb persisted
      end
  end.

Definition check_writer (W : list (string * list wstep)) (routine : string) (old_some v_some persisted : bool) : bool :=
  match find (fun p => String.eqb (fst p) routine) W with
  | None => false
  | Some (_, steps) => Bool.eqb persisted (wcase_ok steps old_some v_some)
  end.
