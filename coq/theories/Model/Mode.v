(* Model of the file-handle discipline of geoh5py (properties C10, C11).  Definitions only; proofs in Proofs/ModeProofs.v.

   Python transcribed (geoh5py/workspace/workspace.py unless said otherwise):
     Workspace.geoh5 (property)        raise Geoh5FileClosedError when `not self._geoh5`
     Workspace._io_call(fun, mode=..)  closed-file error when closed; UserWarning when mode in ["r+","a"] and the handle's mode
                                       is "r"; else fun(self.geoh5, ...)
     Workspace.open(mode=None)         already open: warn, return; mode defaults to self._mode; h5py.File(path, mode), on OSError
                                       h5py.File(path, "r"); registries reset; reader calls (project attributes, root subtree)
     Workspace.close()                 closed: return; writable: listing of groups (sweeps dead referents), for every Concatenator
                                       group when `repack` is set update_attribute (update_field + clear_stats_cache), then
                                       _io_call(H5Writer.save_entity, root, "r+"); File.close(); repack reset (writable sessions only)
                                       -- no try/finally: an error in the final save leaves the handle open
                                       -- the external `h5repack` run after File.close() is not modelled (see notes/C10.md)
     Workspace.__exit__                close(), returns None (the exception propagates)
     Workspace.save_as                 close(); checks on the target and copy of the bytes (may raise: SaveAsFail); _h5file := target; open()
     shared/utils.fetch_active_workspace(ws, mode)   keep when open and `mode in ws.geoh5.mode` (substring test); else close when
                                       open, open(mode), body, finally close
     ui_json/utils.path2workspace      Workspace(path, mode="r"); close()
     ui_json/utils.monitored_directory_copy   with fetch_active_workspace(entity.workspace, mode="r"): copy into a fresh workspace

   SCOPE.  Not modelled: (1) the external `h5repack` step that close() runs after File.close() when `repack` is set on a writable
   path-backed workspace (`unlink` of the file, then `shutil.move` of the tool's output): with a tool that exits 0 without
   writing its output, or a move that fails after the unlink, NO file is left and close() raises -- reachable only with an
   h5repack on PATH (absent in this sandbox; probed with a stand-in), an external-tool failure outside C11's quantifier;
   (2) which file the workspace points at: a successful save_as switches `_h5file` to the copy (bytes identical, so the
   model keeps the same log); the two places where save_as can fail relative to that re-pointing are modelled separately in
   [save_as_detail] at the end of this file, and [SaveAsFail] is its CodeOrder case (pointer still valid, so [open_] may stay total);
   (3) the number of Concatenator groups is constant per run.  `repack` is reset by close only after a writable session of a
   path-backed workspace ([in_mem] = false); a BytesIO workspace keeps it.

   The file is abstract: the log of H5Writer routines that ran on it (only writer routines can change it; h5py enforces this for a
   handle opened "r" -- trusted).  A public operation is the sequence of _io_call's it issues (taken from the extracted table
   T_iocalls and from the run-time trace, see tools/props/c10.py).                                                             *)
From GV Require Import Prelude.Base.
Require Import String.
Open Scope string_scope. Open Scope list_scope.

(* ------------------------------------------------------------------ extracted table rows (generated/Tables_IO.v) *)
Inductive klass := Writer | Reader | OtherFn.
Inductive rmode := MR | MRW | MA | MDefault | MVar | MOther.
Inductive site :=
  | SIoCall | SDirect | SFileOpen | SHandleStore | SHandlePass | SHandleMethod | SHandleAttr | SHandleIndex | SHandleTest
  | SHandleReturn | SHandleWith | SHandleOther | SHandleAlias | SWsAlias | SFetchH5 | SReaderMut.
Record row := { r_site : site; r_encl : string; r_cls : klass; r_callee : string; r_mode : rmode;
                r_file : string; r_line : N; r_end : N }.

Definition site_eqb (a b : site) : bool :=
  match a, b with
  | SIoCall, SIoCall | SDirect, SDirect | SFileOpen, SFileOpen | SHandleStore, SHandleStore | SHandlePass, SHandlePass
  | SHandleMethod, SHandleMethod | SHandleAttr, SHandleAttr | SHandleIndex, SHandleIndex | SHandleTest, SHandleTest
  | SHandleReturn, SHandleReturn | SHandleWith, SHandleWith | SHandleOther, SHandleOther | SHandleAlias, SHandleAlias
  | SWsAlias, SWsAlias
  | SFetchH5, SFetchH5 | SReaderMut, SReaderMut => true
  | _, _ => false
  end.

Definition mem_str (s : string) (l : list string) : bool := existsb (String.eqb s) l.

(* the gate: which rows are acceptable.  Anything that is not listed here makes [all_writers_gated] fail and names the row. *)
Definition gatedb (r : row) : bool :=
  match r_site r with
  | SIoCall =>                                  (* a writer routine only with a literal mode "r+" / "a" *)
      match r_cls r, r_mode r with
      | Writer, MRW | Writer, MA => true
      | Writer, _ => false
      | Reader, MVar | Reader, MOther => false
      | Reader, _ => true
      | OtherFn, _ => false
      end
  | SDirect =>                                  (* the only direct H5Writer call: the fresh in-memory file of the h5file setter *)
      String.eqb (r_encl r) "Workspace.h5file" && String.eqb (r_callee r) "H5Writer.init_geoh5"
  | SFileOpen =>
      (String.eqb (r_encl r) "Workspace.open") ||
      (String.eqb (r_encl r) "Workspace.h5file" && match r_mode r with MA => true | _ => false end) ||
      (String.eqb (r_encl r) "fetch_h5_handle")
  | SHandleStore => mem_str (r_encl r) ["Workspace.__init__"; "Workspace.open"; "Workspace.h5file"]
  | SHandlePass =>                              (* the handle is handed to a routine only by _io_call (and the setter above) *)
      (String.eqb (r_encl r) "Workspace._io_call") ||
      (String.eqb (r_encl r) "Workspace.h5file" && String.eqb (r_callee r) "H5Writer.init_geoh5") ||
      (String.eqb (r_callee r) "isinstance") || (String.eqb (r_callee r) "bool")
  | SHandleMethod => String.eqb (r_callee r) "close" && String.eqb (r_encl r) "Workspace.close"
  | SHandleAttr => String.eqb (r_callee r) "mode"
  | SHandleIndex | SHandleOther => false
  | SHandleWith => String.eqb (r_encl r) "Workspace.h5file"
  | SHandleTest | SHandleReturn => true
  | SHandleAlias => true                        (* `h = self.geoh5`: the uses of h are rows of their own *)
  | SWsAlias => true                            (* ui_json: `geoh5` names a Workspace there *)
  | SFetchH5 =>                                 (* inside H5Reader only "r" is ever requested *)
      match r_cls r, r_mode r with
      | Reader, MDefault | Reader, MR => true
      | Reader, _ => false
      | _, _ => true
      end
  | SReaderMut => false
  end.

Definition ungated (t : list row) : list row := filter (fun r => negb (gatedb r)) t.

(* ------------------------------------------------------------------ modes, handle, errors *)
Inductive mode := R | RW | A.
Definition mode_eqb (a b : mode) : bool :=
  match a, b with R, R | RW, RW | A, A => true | _, _ => false end.
Definition writable (m : mode) : bool := match m with R => false | _ => true end.
(* what h5py reports as File.mode: "r" or "r+" ("a" is reported as "r+") *)
Definition norm (m : mode) : mode := match m with R => R | _ => RW end.

Inductive handle := Closed | Open (m : mode).
Definition handle_eqb (a b : handle) : bool :=
  match a, b with Closed, Closed => true | Open m, Open n => mode_eqb m n | _, _ => false end.

Inductive err :=
  | EClosed      (* Geoh5FileClosedError *)
  | EReadOnly    (* UserWarning raised by _io_call *)
  | EFail        (* the H5 routine itself raised (h5py / validation error) *)
  | EInjected.   (* the exception raised by the caller's own code inside a with-block *)
Definition err_eqb (a b : err) : bool :=
  match a, b with EClosed, EClosed | EReadOnly, EReadOnly | EFail, EFail | EInjected, EInjected => true | _, _ => false end.

Inductive res (A : Type) := Ok (a : A) | Err (e : err).
Arguments Ok {A} a. Arguments Err {A} e.

(* one _io_call: which routine, whether it is an H5Writer routine, the requested mode, whether the routine itself raises *)
(* c_repack: the routine set Workspace.repack (it deleted something) -- observed per call by the driver *)
Record iocall := { c_fn : string; c_writer : bool; c_req : mode; c_fails : bool; c_repack : bool }.

Definition req_of (m : rmode) : mode := match m with MRW => RW | MA => A | _ => R end.
Definition call_of_row (r : row) : iocall :=
  {| c_fn := r_callee r; c_writer := match r_cls r with Writer => true | _ => false end; c_req := req_of (r_mode r);
     c_fails := false; c_repack := false |}.
Definition io_rows (t : list row) : list row := filter (fun r => site_eqb (r_site r) SIoCall) t.

(* a call is "from the table" when some SIoCall row has the same routine and the same literal mode *)
Definition call_in_table (t : list row) (c : iocall) : bool :=
  existsb (fun r => site_eqb (r_site r) SIoCall && String.eqb (r_callee r) (c_fn c)
                    && mode_eqb (req_of (r_mode r)) (c_req c)
                    && Bool.eqb (match r_cls r with Writer => true | _ => false end) (c_writer c)) t.
(* run-time tie: the site (file, line) of the caller of _io_call is a table row with that routine and mode *)
Definition site_in_table (t : list row) (file : string) (line : N) (c : iocall) : bool :=
  existsb (fun r =>
    if N.leb (r_line r) line then if N.leb line (r_end r) then if site_eqb (r_site r) SIoCall then
      if mode_eqb (req_of (r_mode r)) (c_req c) then
        if Bool.eqb (match r_cls r with Writer => true | _ => false end) (c_writer c) then
          if String.eqb (r_callee r) (c_fn c) then String.eqb (r_file r) file else false
        else false else false else false else false else false) t.

Definition gated_call (c : iocall) : bool := negb (c_writer c) || writable (c_req c).

(* ------------------------------------------------------------------ the world *)
Record world := {
  handle_of : handle;
  defmode : mode;            (* Workspace._mode: the constructor's mode, used by open() without argument *)
  file : list string;        (* log of the writer routines that ran on the file *)
  locked : bool;             (* h5py.File(path, writable mode) raises OSError (file held elsewhere / not writable) *)
  close_fault : bool;        (* environment: the final save inside close() raises *)
  repack : bool;             (* Workspace._repack *)
  ncat : nat;                (* number of live Concatenator groups (each is refreshed by close under repack) *)
  in_mem : bool              (* Workspace._h5file is a BytesIO buffer (until a successful save_as) *)
}.
Definition set_handle (w : world) (h : handle) : world :=
  {| handle_of := h; defmode := defmode w; file := file w; locked := locked w; close_fault := close_fault w;
     repack := repack w; ncat := ncat w; in_mem := in_mem w |}.
Definition set_repack (w : world) (b : bool) : world :=
  {| handle_of := handle_of w; defmode := defmode w; file := file w; locked := locked w; close_fault := close_fault w;
     repack := b; ncat := ncat w; in_mem := in_mem w |}.
Definition set_in_mem (w : world) (b : bool) : world :=
  {| handle_of := handle_of w; defmode := defmode w; file := file w; locked := locked w; close_fault := close_fault w;
     repack := repack w; ncat := ncat w; in_mem := b |}.
Definition log (w : world) (f : string) : world :=
  {| handle_of := handle_of w; defmode := defmode w; file := file w ++ [f]; locked := locked w; close_fault := close_fault w;
     repack := repack w; ncat := ncat w; in_mem := in_mem w |}.

(* Workspace._io_call *)
Definition io_call (w : world) (c : iocall) : res world :=
  match handle_of w with
  | Closed => Err EClosed
  | Open m =>
      if writable (c_req c) && mode_eqb m R then Err EReadOnly
      else if c_fails c then Err EFail
      else let w1 := if c_writer c then log w (c_fn c) else w in
           Ok (if c_repack c then set_repack w1 true else w1)
  end.

(* the calls of one operation, in order; the first refusal aborts the operation (the exception propagates) *)
Fixpoint io_calls (w : world) (cs : list iocall) : world * option err :=
  match cs with
  | [] => (w, None)
  | c :: r => match io_call w c with
              | Ok w' => io_calls w' r
              | Err e => (w, Some e)
              end
  end.

Definition wcall (f : string) (fails : bool) : iocall :=
  {| c_fn := f; c_writer := true; c_req := RW; c_fails := fails; c_repack := false |}.
Definition save_root : iocall := wcall "H5Writer.save_entity" false.
Definition remove_dead : iocall := wcall "H5Writer.remove_entity" false.
Definition refresh_cat : list iocall := [wcall "H5Writer.update_field" false; wcall "H5Writer.clear_stats_cache" false].

(* the _io_call's issued by Workspace.close on a writable handle; [dead] = dead group referents swept by `self.groups` *)
Definition close_calls (dead : nat) (w : world) : list iocall :=
  repeat remove_dead dead
  ++ (if repack w then List.concat (repeat refresh_cat (ncat w)) else [])
  ++ [wcall "H5Writer.save_entity" (close_fault w)].

(* Workspace.close *)
Definition close_n (dead : nat) (w : world) : world * option err :=
  match handle_of w with
  | Closed => (w, None)
  | Open m =>
      if writable m then
        match io_calls w (close_calls dead w) with
        | (w', None) => (set_repack (set_handle w' Closed) (repack w' && in_mem w'), None)   (* reset unless BytesIO *)
        | (w', Some e) => (w', Some e)             (* File.close() is not reached *)
        end
      else (set_handle w Closed, None)          (* repack is reset only after a writable session *)
  end.
Definition close := close_n 0.

(* Workspace.open(mode); the reader calls that load the tree cannot change the file and are not listed *)
Definition open_ (m : option mode) (w : world) : world * option err :=
  match handle_of w with
  | Open _ => (w, None)
  | Closed =>
      let want := match m with Some x => x | None => defmode w end in
      let got := if writable want && locked w then R else norm want in
      (set_handle w (Open got), None)
  end.

(* `mode in workspace.geoh5.mode` on the strings "r", "r+", "a" *)
Definition substr_mode (req hm : mode) : bool :=
  match req, norm hm with
  | R, _ => true            (* "r" in "r", "r" in "r+" *)
  | RW, RW => true
  | _, _ => false           (* "r+" in "r", "a" in anything *)
  end.

(* ------------------------------------------------------------------ operations *)
Inductive op :=
  | Calls (cs : list iocall)                       (* any public API operation: the _io_call's it issues *)
  | List_ (dead : nat)                             (* ws.objects / data / groups / types / property_groups with [dead] dead referents *)
  | Close
  | OpenM (m : option mode)
  | FetchActive (req : mode) (body : list iocall)  (* with fetch_active_workspace(ws, mode=req): <one operation> *)
  | SaveAs
  | Path2Workspace                                 (* helper on a path: a second Workspace(path, mode="r") opened and closed *)
  | MonitoredCopy (body : list iocall)             (* monitored_directory_copy(entity of this workspace) *)
  | CallsThenRaise (cs : list iocall)              (* an operation whose own Python code raises after (or without) its _io_call's *)
  | MemRepack                                      (* Python-level effect without file access: concatenated attributes edited in
                                                      memory set Workspace.repack (also when the write that follows is refused,
                                                      also on a closed workspace) *)
  | SaveAsFail.                                    (* save_as / create whose target cannot be written (missing directory, existing
                                                      file, wrong suffix): the workspace has been closed, then the copy raises *)

Definition seq (a : world * option err) (f : world -> world * option err) : world * option err :=
  match a with
  | (w, None) => f w
  | (w, Some e) => (w, Some e)
  end.

(* body, then close whatever happened (try/finally); the body's exception wins unless close raises *)
Definition finally_close (a : world * option err) : world * option err :=
  match a with
  | (w, e) => match close w with
              | (w', None) => (w', e)
              | (w', Some e') => (w', Some e')
              end
  end.

Definition fetch_active (req : mode) (body : list iocall) (w : world) : world * option err :=
  match handle_of w with
  | Open hm =>
      if substr_mode req hm then io_calls w body
      else seq (close w) (fun w1 => seq (open_ (Some req) w1) (fun w2 => finally_close (io_calls w2 body)))
  | Closed => seq (open_ (Some req) w) (fun w2 => finally_close (io_calls w2 body))
  end.

Definition step (w : world) (o : op) : world * option err :=
  match o with
  | Calls cs => io_calls w cs
  | List_ dead => io_calls w (repeat remove_dead dead)
  | Close => close w
  | OpenM m => open_ m w
  | FetchActive req body => fetch_active req body w
  | SaveAs => seq (close w) (fun w1 => open_ None (set_in_mem w1 false))   (* _h5file := the copy on disk *)
  | Path2Workspace => (w, None)                  (* a separate Workspace object on mode "r": never touches this handle *)
  | MonitoredCopy body => fetch_active R body w
  | CallsThenRaise cs => match io_calls w cs with
                         | (w', None) => (w', Some EFail)
                         | r => r
                         end
  | MemRepack => (set_repack w true, None)
  | SaveAsFail => seq (close w) (fun w1 => (w1, Some EFail))
  end.

(* a script: every operation is attempted, exceptions are caught by the caller; outcomes are recorded *)
Fixpoint run (ops : list op) (w : world) : world * list (option err) :=
  match ops with
  | [] => (w, [])
  | o :: r => let '(w1, e) := step w o in let '(w2, es) := run r w1 in (w2, e :: es)
  end.

(* the body of a with-block: stops at the first exception *)
Fixpoint run_block (ops : list op) (w : world) : world * option err :=
  match ops with
  | [] => (w, None)
  | o :: r => seq (step w o) (run_block r)
  end.

(* `with ws: ops` where the caller's code raises after k operations (k >= length ops: no injected exception);
   __exit__ = close, returns None *)
Definition with_block (ops : list op) (k : nat) (w : world) : world * option err :=
  let '(w1, e1) := run_block (firstn k ops) w in
  let e1' := match e1 with Some e => Some e | None => if Nat.ltb k (List.length ops) then Some EInjected else None end in
  match close w1 with
  | (w2, None) => (w2, e1')
  | (w2, Some e2) => (w2, Some e2)
  end.

(* operations that (re-)open the file in a writable mode on the caller's explicit request *)
Definition explicit_reopen (o : op) : bool :=
  match o with
  | OpenM (Some m) => writable m
  | FetchActive req _ => negb (mode_eqb req R)
  | _ => false
  end.

Definition calls_of (o : op) : list iocall :=
  match o with
  | Calls cs | FetchActive _ cs | MonitoredCopy cs | CallsThenRaise cs => cs
  | List_ dead => repeat remove_dead dead
  | _ => []
  end.
Definition writes (o : op) : bool := existsb c_writer (calls_of o).
Definition op_gated (o : op) : bool := forallb gated_call (calls_of o).
Definition op_total (o : op) : bool := forallb (fun c => negb (c_fails c)) (calls_of o).

(* the first call of the operation that is a gated writer, and everything before it is a reader that does not fail:
   the operation must be refused *)
Definition needs_file (o : op) : bool := match o with Calls (_ :: _) => true | List_ (S _) => true | _ => false end.

(* writer routines of an operation, as they are appended to the log when it completes *)
Definition writer_log (cs : list iocall) : list string := map c_fn (filter c_writer cs).

(* ------------------------------------------------------------------ executable comparison for the correspondence files *)
Definition oerr_eqb := option_eqb err_eqb.
Definition outcomes_eqb := list_eqb oerr_eqb.

(* C10 single/sequence case: from Open R (workspace built with mode "r"), run [ops]; observed: per-op outcomes, final handle,
   whether the file changed (hash), and every call's static site *)
Definition w_init (h : handle) (dm : mode) (lk : bool) (nc : nat) : world :=
  {| handle_of := h; defmode := dm; file := []; locked := lk; close_fault := false; repack := false; ncat := nc; in_mem := false |}.

Definition agree_run_m (im : bool) (h : handle) (dm : mode) (lk : bool) (nc : nat) (ops : list op)
           (obs_out : list (option err)) (obs_handles : list handle) (obs_log : list string) : bool :=
  let fix go (ops : list op) (w : world) : list (option err) * list handle * world :=
      match ops with
      | [] => ([], [], w)
      | o :: r => let '(w1, e) := step w o in let '(es, hs, w2) := go r w1 in (e :: es, handle_of w1 :: hs, w2)
      end in
  let '(es, hs, wf) := go ops (set_in_mem (w_init h dm lk nc) im) in
  outcomes_eqb es obs_out && list_eqb handle_eqb hs obs_handles && list_eqb String.eqb (file wf) obs_log.

Definition agree_run := agree_run_m false.

(* every traced call sits at a table row (file, line range, routine, literal mode) *)
Definition sites_ok (t : list row) (l : list (string * N * iocall)) : bool :=
  forallb (fun x => let '(f, n, c) := x in site_in_table t f n c) l.

(* C11 case: with-block with an exception after k ops *)
Definition agree_with_m (im : bool) (h : handle) (dm : mode) (fault : bool) (nc : nat) (ops : list op) (k : nat)
           (obs_exc : option err) (obs_handle : handle) (obs_log : list string) : bool :=
  let w0 := {| handle_of := h; defmode := dm; file := []; locked := false; close_fault := fault; repack := false; ncat := nc;
               in_mem := im |} in
  let '(w1, e) := with_block ops k w0 in
  oerr_eqb e obs_exc && handle_eqb (handle_of w1) obs_handle && list_eqb String.eqb (file w1) obs_log.
Definition agree_with := agree_with_m false.

(* ------------------------------------------------------------------ Workspace.save_as in detail: where it can fail *)
(* save_as: close(); [checks: suffix, target exists] ; [copy: open(target,"wb")/shutil.copy] ; _h5file := target ; open().
   sa_ptr = "_h5file names a file or buffer that exists and holds the content".  The code re-points _h5file AFTER the copy
   (CodeOrder); RepointFirst is the variant that re-points before the copy (what a careless refactoring does). *)
Inductive sa_fail := FailChecks | FailCopy.
Inductive sa_variant := CodeOrder | RepointFirst.
Record sa_state := { sa_handle : handle; sa_ptr : bool }.
Definition save_as_detail (v : sa_variant) (f : option sa_fail) (s : sa_state) : sa_state * option err :=
  let closed := {| sa_handle := Closed; sa_ptr := sa_ptr s |} in
  match f with
  | Some FailChecks => (closed, Some EFail)
  | Some FailCopy =>
      match v with
      | CodeOrder => (closed, Some EFail)
      | RepointFirst => ({| sa_handle := Closed; sa_ptr := false |}, Some EFail)   (* points at a file that was never written *)
      end
  | None => if sa_ptr s then ({| sa_handle := Open RW; sa_ptr := true |}, None) else (closed, Some EFail)
  end.
(* open(): h5py.File on a missing file raises (also in the "r" fallback) *)
Definition sa_open (s : sa_state) : sa_state * option err :=
  match sa_handle s with
  | Open _ => (s, None)
  | Closed => if sa_ptr s then ({| sa_handle := Open RW; sa_ptr := true |}, None) else (s, Some EFail)
  end.
(* correspondence: pointer validity observed after a failing save_as *)
Definition agree_sa (f : sa_fail) (obs_ptr_valid obs_reopen_ok : bool) : bool :=
  let s1 := fst (save_as_detail CodeOrder (Some f) {| sa_handle := Open RW; sa_ptr := true |}) in
  Bool.eqb (sa_ptr s1) obs_ptr_valid
  && Bool.eqb (match snd (sa_open s1) with None => true | Some _ => false end) obs_reopen_ok.
