(* Model of linked survey entities (property C20).  Definitions only; proofs live in Proofs/LinkedProofs.v.

   Python transcribed (geoh5py/objects/surveys/electromagnetics/base.py, tipper.py, direct_current.py,
   shared/entity.py, io/h5_reader.py:fetch_metadata)
     BaseEMSurvey.metadata getter   : cached dict, else the stored JSON (uid strings back to UUID), else the class default
                                      with metadata[type] = own uid, assigned through the setter
     BaseEMSurvey.metadata setter   : self._metadata = values; store; for receivers/transmitters/base_stations getters:
                                      dependent._metadata = values (THE SAME dict object); store the dependent
     edit_em_metadata               : mutate the inner "EM Dataset" dict in place, then the setter
     receivers/transmitters/base_stations getters : cached entity, else metadata[key] resolved by workspace.get_entity
     ... setters                    : cache the entity, edit_em_metadata({key: partner.uid})
     TEMSurvey.waveform setter      : mutates metadata["EM Dataset"]["Waveform"] IN PLACE (a nested dict), then edit
     BaseEMSurvey.copy + copy_complement : copy without metadata/links, re-play every non-uid metadata entry on the
                                      copy (the VALUE OBJECTS are shared), copy the complement, link from the copy's side
     LargeLoopGroundEMSurvey.copy_complement : only when both sides carry a "Transmitter ID" property
     BaseElectrode (direct current) : metadata = {both uids} assigned to both entities through Entity.metadata's setter
                                      (dict.update when a dict exists, else the object itself); copy links the copies only
                                      when both sides carry "A-B Cell ID".

   Dictionaries live in a heap of cells, so sharing between partners and between a copy and its source is expressible.
   The file keeps, per (workspace, uid), the last stored JSON (nested dicts by value).                              *)
From GV Require Import Prelude.Base.
From GVgen Require Import C20_Flags.   (* tipper_units_broken: read from the source under test on every run *)

(* FEM / FTEM: moving-loop ground surveys; FAirEM / FAirTEM: airborne surveys (the only classes with set_metadata: pitch, roll ...) *)
Inductive family := FEM | FTEM | FLarge | FLargeTEM | FTipper | FDC | FAirEM | FAirTEM.
Inductive role := RA | RB.      (* RA: receivers / potential electrodes ; RB: transmitters / base stations / current electrodes *)

Definition is_tem (f : family) : bool := match f with FTEM | FLargeTEM | FAirTEM => true | _ => false end.
Definition is_airborne (f : family) : bool := match f with FAirEM | FAirTEM => true | _ => false end.
Definition is_large (f : family) : bool := match f with FLarge | FLargeTEM => true | _ => false end.
Definition is_dc (f : family) : bool := match f with FDC => true | _ => false end.

(* keys: 0 = the RA link ("Receivers" / "Potential Electrodes"), 1 = the RB link, 2 = "Waveform", 3 = "Tx ID property",
   >= 10 scalar survey parameters (unit, channels, loop radius, offsets ...) and, for direct current, free metadata *)
Definition KA := 0. Definition KB := 1. Definition KW := 2. Definition KT := 3.
Definition KC := 30.   (* "Coordinate Reference System": a nested block {0: Current, 1: Previous} *)
Definition key_of (r : role) : nat := match r with RA => KA | RB => KB end.
Definition other (r : role) : role := match r with RA => RB | RB => RA end.

Inductive val := VU (u : N) | VZ (z : Z) | VRef (l : N) | VOwn.
Definition dict := list (nat * val).

Inductive fval := FU (u : N) | FZ (z : Z) | FD (d : list (nat * Z)) | FOwn.
Definition fdict := list (nat * fval).

Record ent := {
  uid : N; wsp : bool; fam : family; rol : role;
  md : option N;                  (* the cached metadata dict object *)
  cache : option N;               (* the cached partner entity (uid, same workspace) *)
  ids : bool;                     (* carries "Transmitter ID" / "A-B Cell ID" data *)
  nv : nat                        (* number of vertices (mask shape check) *)
}.

(* heap: the metadata dict objects; wheap: the nested dict objects they may reference (TEM "Waveform") *)
Record st := { ents : list ent; heap : list (N * dict); wheap : list (N * list (nat * Z)); file : list (bool * N * fdict); next : N }.

Inductive err := EMaskShape | ENoEntity | EAttribute | EBadOp.
Inductive res (A : Type) := Ok (a : A) | Err (e : err).
Arguments Ok {A} a.
Arguments Err {A} e.

(* ------------------------------------------------------------------ finite maps *)
Fixpoint dget {V} (k : nat) (d : list (nat * V)) : option V :=
  match d with [] => None | (k', v) :: r => if Nat.eqb k k' then Some v else dget k r end.
(* dictionaries are kept sorted by key (canonical form; the driver sorts its observations the same way) *)
Fixpoint dset {V} (k : nat) (v : V) (d : list (nat * V)) : list (nat * V) :=
  match d with
  | [] => [(k, v)]
  | (k', v') :: r => if Nat.eqb k k' then (k, v) :: r else if Nat.ltb k k' then (k, v) :: (k', v') :: r else (k', v') :: dset k v r
  end.
Fixpoint ddel {V} (k : nat) (d : list (nat * V)) : list (nat * V) :=
  match d with [] => [] | (k', v) :: r => if Nat.eqb k k' then r else (k', v) :: ddel k r end.
(* cells: first match wins; an update shadows the older cell *)
Fixpoint hget {V} (l : N) (h : list (N * list V)) : list V :=
  match h with [] => [] | (l', d) :: r => if N.eqb l l' then d else hget l r end.
Definition hset {V} (l : N) (d : list V) (h : list (N * list V)) : list (N * list V) := (l, d) :: h.

Definition same_ent (w : bool) (u : N) (e : ent) : bool := Bool.eqb w (wsp e) && N.eqb u (uid e).
Fixpoint get_ent (w : bool) (u : N) (l : list ent) : option ent :=
  match l with [] => None | e :: r => if same_ent w u e then Some e else get_ent w u r end.
Fixpoint put_ent (e : ent) (l : list ent) : list ent :=
  match l with [] => [e] | x :: r => if same_ent (wsp e) (uid e) x then e :: r else x :: put_ent e r end.

Fixpoint fget (w : bool) (u : N) (f : list (bool * N * fdict)) : option fdict :=
  match f with [] => None | (w', u', d) :: r => if Bool.eqb w w' && N.eqb u u' then Some d else fget w u r end.
Fixpoint fput (w : bool) (u : N) (d : fdict) (f : list (bool * N * fdict)) : list (bool * N * fdict) :=
  match f with [] => [(w, u, d)] | (w', u', d') :: r => if Bool.eqb w w' && N.eqb u u' then (w, u, d) :: r else (w', u', d') :: fput w u d r end.

Definition with_md (e : ent) (m : option N) : ent :=
  {| uid := uid e; wsp := wsp e; fam := fam e; rol := rol e; md := m; cache := cache e; ids := ids e; nv := nv e |}.
Definition with_cache (e : ent) (c : option N) : ent :=
  {| uid := uid e; wsp := wsp e; fam := fam e; rol := rol e; md := md e; cache := c; ids := ids e; nv := nv e |}.

Definition set_ents (s : st) (l : list ent) : st := {| ents := l; heap := heap s; wheap := wheap s; file := file s; next := next s |}.
Definition set_heap (s : st) (h : list (N * dict)) : st := {| ents := ents s; heap := h; wheap := wheap s; file := file s; next := next s |}.
Definition set_wheap (s : st) (h : list (N * list (nat * Z))) : st := {| ents := ents s; heap := heap s; wheap := h; file := file s; next := next s |}.
Definition set_file (s : st) (f : list (bool * N * fdict)) : st := {| ents := ents s; heap := heap s; wheap := wheap s; file := f; next := next s |}.
Definition bump (s : st) : st := {| ents := ents s; heap := heap s; wheap := wheap s; file := file s; next := N.succ (next s) |}.

(* ------------------------------------------------------------------ live dict <-> stored JSON *)
Definition expand_val (h : list (N * list (nat * Z))) (v : val) : fval :=
  match v with VU u => FU u | VZ z => FZ z | VRef l => FD (hget l h) | VOwn => FOwn end.
Definition expand (h : list (N * list (nat * Z))) (d : dict) : fdict := map (fun kv => (fst kv, expand_val h (snd kv))) d.
(* what entity-level readers see of a dict object *)
Definition read (s : st) (l : N) : fdict := expand (wheap s) (hget l (heap s)).

(* loading the stored JSON allocates fresh dict objects *)
Fixpoint load (fd : fdict) (s : st) : dict * st :=
  match fd with
  | [] => ([], s)
  | (k, v) :: r =>
      let '(d, s1) := load r s in
      match v with
      | FU u => ((k, VU u) :: d, s1)
      | FZ z => ((k, VZ z) :: d, s1)
      | FOwn => ((k, VOwn) :: d, s1)
      | FD dd => let l := next s1 in ((k, VRef l) :: d, bump (set_wheap s1 (hset l dd (wheap s1))))
      end
  end.

(* ------------------------------------------------------------------ electromagnetic surveys *)
(* class default metadata: own link key = own uid; TEM classes carry Waveform = {"Timing mark": 0} (key 0 of the nested dict) *)
Definition default_md (e : ent) (s : st) : dict * st :=
  let base := [(key_of (rol e), VU (uid e))] in
  if is_tem (fam e)
  then let l := next s in (dset KW (VRef l) base, bump (set_wheap s (hset l [(0, 0%Z)] (wheap s))))
  else (base, s).

Definition store (s : st) (e : ent) (l : N) : st := set_file s (fput (wsp e) (uid e) (read s l) (file s)).

(* the receivers / transmitters / base_stations getter of entity e for link key k, given e's metadata dict at l *)
Definition resolve (s : st) (e : ent) (l : N) (k : nat) : option ent :=
  if Nat.eqb k (key_of (rol e)) then Some e   (* metadata[own type] = own uid -> the entity itself *)
  else match cache e with
       | Some u => get_ent (wsp e) u (ents s)
       | None => match dget k (hget l (heap s)) with
                 | Some (VU u) => get_ent (wsp e) u (ents s)
                 | _ => None
                 end
       end.

(* metadata setter: self._metadata = values, store, then the same dict object on every resolved dependent *)
Definition em_assign (s : st) (e : ent) (l : N) : st :=
  let e1 := with_md e (Some l) in
  let s1 := store (set_ents s (put_ent e1 (ents s))) e1 l in
  match resolve s1 e1 l (key_of (other (rol e))) with
  | Some d =>
      if same_ent (wsp e) (uid e) d then s1 else
      let e2 := (if cache e1 then e1 else with_cache e1 (Some (uid d))) in     (* the getter cached the partner *)
      let d1 := with_md d (Some l) in
      store (set_ents s1 (put_ent d1 (put_ent e2 (ents s1)))) d1 l
  | None => s1
  end.

(* metadata getter *)
Definition em_md (s : st) (e : ent) : N * st :=
  match md e with
  | Some l => (l, s)
  | None =>
      match fget (wsp e) (uid e) (file s) with
      | Some fd => let '(d, s1) := load fd s in
                   let l := next s1 in
                   let s2 := bump (set_heap s1 (hset l d (heap s1))) in
                   (l, set_ents s2 (put_ent (with_md e (Some l)) (ents s2)))
      | None => let '(d, s1) := default_md e s in
                let l := next s1 in
                let s2 := bump (set_heap s1 (hset l d (heap s1))) in
                (l, em_assign s2 e l)
      end
  end.

Definition refresh (s : st) (e : ent) : ent := match get_ent (wsp e) (uid e) (ents s) with Some x => x | None => e end.

(* edit_em_metadata({k: v}) *)
Definition em_edit (s : st) (e : ent) (k : nat) (v : val) : st :=
  let '(l, s1) := em_md s e in
  let s2 := set_heap s1 (hset l (dset k v (hget l (heap s1))) (heap s1)) in
  em_assign s2 (refresh s2 e) l.

(* entity.<partner> = p *)
Definition em_link (s : st) (e p : ent) : st :=
  let e1 := with_cache e (Some (uid p)) in
  let s1 := set_ents s (put_ent e1 (ents s)) in
  em_edit s1 e1 (key_of (rol p)) (VU (uid p)).

(* TEM waveform setter: when the Waveform block carries a "Timing mark" (key 0 of the nested dict; `self.timing_mark is not None`)
   the nested dict is updated in place, else a new dict {"Timing mark": 0.0, "Discretization": z} replaces the entry *)
Definition em_wave (s : st) (e : ent) (z : Z) : st :=
  let '(l, s1) := em_md s e in
  let fresh :=
      let wl := next s1 in
      let s2 := bump (set_wheap s1 (hset wl [(0, 0%Z); (1, z)] (wheap s1))) in
      em_edit s2 (refresh s2 e) KW (VRef wl) in
  match dget KW (hget l (heap s1)) with
  | Some (VRef wl) =>
      match dget 0 (hget wl (wheap s1)) with
      | Some _ =>
          let s2 := set_wheap s1 (hset wl (dset 1 z (hget wl (wheap s1))) (wheap s1)) in
          em_edit s2 (refresh s2 e) KW (VRef wl)
      | None => fresh
      end
  | _ => fresh
  end.

(* TEM timing_mark setter: when a waveform discretization exists (key 1 of the nested dict) the nested dict is updated in
   place, else a new dict {"Timing mark": z} replaces the entry; then edit_em_metadata({"Waveform": value}) *)
Definition em_timing (s : st) (e : ent) (z : Z) : st :=
  let '(l, s1) := em_md s e in
  match dget KW (hget l (heap s1)) with
  | Some (VRef wl) =>
      match dget 1 (hget wl (wheap s1)) with
      | Some _ =>
          let s2 := set_wheap s1 (hset wl (dset 0 z (hget wl (wheap s1))) (wheap s1)) in
          em_edit s2 (refresh s2 e) KW (VRef wl)
      | None =>
          let wl' := next s1 in
          let s2 := bump (set_wheap s1 (hset wl' [(0, z)] (wheap s1))) in
          em_edit s2 (refresh s2 e) KW (VRef wl')
      end
  | _ =>
      let wl' := next s1 in
      let s2 := bump (set_wheap s1 (hset wl' [(0, z)] (wheap s1))) in
      em_edit s2 (refresh s2 e) KW (VRef wl')
  end.

(* edit_em_metadata({key: {sub: z}}) : a fresh nested dict as value *)
Definition em_nest (s : st) (e : ent) (k sub : nat) (z : Z) : st :=
  let wl := next s in
  let s1 := bump (set_wheap s (hset wl [(sub, z)] (wheap s))) in
  em_edit s1 (refresh s1 e) k (VRef wl).

(* AirborneEMSurvey.set_metadata(key, value) — pitch, roll, yaw and the three offsets: a parameter is stored EITHER as a constant
   ("<Field> value") OR as a reference to a data property ("<Field> property"); one edit_em_metadata call with both entries,
   where a None entry removes the key:   float -> {value: x, property: None};  uuid -> {value: None, property: u};
   None -> {value: None, property: None} *)
Inductive pval := PConst (z : Z) | PProp (z : Z) | PClear.

Definition dput {V} (k : nat) (ov : option V) (d : list (nat * V)) : list (nat * V) :=
  match ov with Some v => dset k v d | None => ddel k d end.

Definition em_edit2 (s : st) (e : ent) (k1 : nat) (v1 : option val) (k2 : nat) (v2 : option val) : st :=
  let '(l, s1) := em_md s e in
  let s2 := set_heap s1 (hset l (dput k2 v2 (dput k1 v1 (hget l (heap s1)))) (heap s1)) in
  em_assign s2 (refresh s2 e) l.

Definition em_param (s : st) (e : ent) (kv kp : nat) (v : pval) : st :=
  match v with
  | PConst z => em_edit2 s e kv (Some (VZ z)) kp None
  | PProp z => em_edit2 s e kv None kp (Some (VU (Z.to_N z)))   (* a uuid: not replayed by a copy *)
  | PClear => em_edit2 s e kv None kp None
  end.

(* ------------------------------------------------------------------ direct current electrodes *)
(* Entity.metadata setter: update the existing dict in place, else adopt the argument object; store *)
Definition dc_assign (s : st) (e : ent) (l : N) : st :=
  match md e with
  | Some l0 =>
      let d := fold_left (fun acc kv => dset (fst kv) (snd kv) acc) (hget l (heap s)) (hget l0 (heap s)) in
      let s1 := set_heap s (hset l0 d (heap s)) in
      store s1 e l0
  | None =>
      let e1 := with_md e (Some l) in
      store (set_ents s (put_ent e1 (ents s))) e1 l
  end.

Definition dc_md (s : st) (e : ent) : option N * st :=
  match md e with
  | Some l => (Some l, s)
  | None =>
      match fget (wsp e) (uid e) (file s) with
      | Some fd => let '(d, s1) := load fd s in
                   let l := next s1 in
                   let s2 := bump (set_heap s1 (hset l d (heap s1))) in
                   (Some l, set_ents s2 (put_ent (with_md e (Some l)) (ents s2)))
      | None => (None, s)
      end
  end.

(* a.<partner> = b : one new dict {both uids}, assigned to a and then to b *)
Definition dc_link (s : st) (a b : ent) : st :=
  let pa := if match rol a with RA => true | RB => false end then a else b in
  let pb := if match rol a with RA => true | RB => false end then b else a in
  let l := next s in
  let s0 := bump (set_heap s (hset l [(KA, VU (uid pa)); (KB, VU (uid pb))] (heap s))) in
  let '(_, s1) := dc_md s0 a in
  let s2 := dc_assign s1 (refresh s1 a) l in
  let b2 := refresh s2 b in
  let '(_, s3) := dc_md s2 b2 in
  dc_assign s3 (refresh s3 b2) l.

(* entity.metadata = {k: z} on an electrode *)
Definition dc_edit (s : st) (e : ent) (k : nat) (z : Z) : res st :=
  let '(m, s1) := dc_md s e in
  match m with
  | None => Err EBadOp                        (* both link keys are required *)
  | Some _ =>
      let l := next s1 in
      let s2 := bump (set_heap s1 (hset l [(k, VZ z)] (heap s1))) in
      Ok (dc_assign s2 (refresh s2 e) l)
  end.

(* electrode.coordinate_reference_system = {...}: metadata = {"Coordinate Reference System": {"Current": new, "Previous": the
   current one or the library default}} through the electrode metadata setter *)
Definition dc_crs (s : st) (e : ent) (znew zdefault : Z) : res st :=
  let '(m, s1) := dc_md s e in
  match m with
  | None => Err EBadOp
  | Some l0 =>
      let prev := match dget KC (hget l0 (heap s1)) with
                  | Some (VRef cl) => match dget 0 (hget cl (wheap s1)) with Some z => z | None => zdefault end
                  | _ => zdefault
                  end in
      let cl := next s1 in
      let s2 := bump (set_wheap s1 (hset cl [(0, znew); (1, prev)] (wheap s1))) in
      let l := next s2 in
      let s3 := bump (set_heap s2 (hset l [(KC, VRef cl)] (heap s2))) in
      Ok (dc_assign s3 (refresh s3 e) l)
  end.

(* ------------------------------------------------------------------ partner getters (observations and copy) *)
Definition partner (s : st) (e : ent) : option ent * st :=
  if is_dc (fam e) then
    (* the electrode getters keep the resolved partner; the link setters do not refresh it *)
    match cache e with
    | Some u => (get_ent (wsp e) u (ents s), s)
    | None =>
        let '(m, s1) := dc_md s e in
        match m with
        | None => (None, s1)
        | Some l => match dget (key_of (other (rol e))) (hget l (heap s1)) with
                    | Some (VU u) =>
                        match get_ent (wsp e) u (ents s1) with
                        | Some d => (Some d, set_ents s1 (put_ent (with_cache (refresh s1 e) (Some u)) (ents s1)))
                        | None => (None, s1)
                        end
                    | _ => (None, s1)
                    end
        end
    end
  else
    let '(l, s1) := em_md s e in
    let e1 := refresh s1 e in
    match resolve s1 e1 l (key_of (other (rol e))) with
    | Some d => (Some d, if cache e1 then s1 else set_ents s1 (put_ent (with_cache e1 (Some (uid d))) (ents s1)))
    | None => (None, s1)
    end.

(* ------------------------------------------------------------------ copies *)
Definition count_true (m : list bool) : nat := length (filter (fun b => b) m).

(* "Assign the same uid if possible" *)
Definition new_ent (s : st) (e : ent) (tw : bool) (n : nat) : ent * st :=
  match get_ent tw (uid e) (ents s) with
  | None => ({| uid := uid e; wsp := tw; fam := fam e; rol := rol e; md := None; cache := None; ids := ids e; nv := n |}, s)
  | Some _ => ({| uid := next s; wsp := tw; fam := fam e; rol := rol e; md := None; cache := None; ids := ids e; nv := n |}, bump s)
  end.

Definition add_ent (s : st) (e : ent) : st := set_ents s (ents s ++ [e]).

Definition masked_nv (e : ent) (mask : option (list bool)) : res nat :=
  match mask with
  | None => Ok (nv e)
  | Some m => if Nat.eqb (length m) (nv e) then Ok (count_true m) else Err EMaskShape
  end.

(* replay of every metadata entry whose value is not a uid on the copy (the value objects are shared) *)
Fixpoint replay (s : st) (w : bool) (u : N) (d : dict) : st :=
  match d with
  | [] => s
  | (k, v) :: r =>
      let s1 := match v, get_ent w u (ents s) with
                | (VZ _ | VRef _), Some e => em_edit s e k v
                | _, _ => s
                end in
      replay s1 w u r
  end.

(* a new survey entity: created, registered, saved — saving reads the metadata, which creates and stores the class default *)
Definition spawn (s : st) (e : ent) (tw : bool) (n : nat) : ent * st :=
  let '(c, s1) := new_ent s e tw n in
  let s2 := add_ent s1 c in
  let '(l, s3) := em_md s2 c in
  (with_md c (Some l), s3).

Definition em_copy (s : st) (e : ent) (tw : bool) (mask : option (list bool)) : res (st * N) :=
  match masked_nv e mask with
  | Err x => Err x
  | Ok n =>
      let '(c, s2) := spawn s e tw n in
      let '(l, s3) := em_md s2 (refresh s2 e) in
      let s4 := replay s3 tw (uid c) (hget l (heap s3)) in
      let '(p, s5) := partner s4 (refresh s4 e) in
      match p with
      | None => Ok (s5, uid c)
      | Some q =>
          if is_large (fam e) then
            if ids e && ids q then
              let '(c2, s7) := spawn s5 q tw (nv q) in
              (* receivers of the pair carry "Tx ID property" = their own data child *)
              let s8 := match rol c with RA => em_edit s7 (refresh s7 c) KT VOwn | RB => s7 end in
              let s9 := em_link s8 (refresh s8 c) (refresh s8 c2) in
              let s10 := match rol c2 with RA => em_edit s9 (refresh s9 c2) KT VOwn | RB => s9 end in
              Ok (s10, uid c)
            else Ok (match rol c, ids e with RA, true => em_edit s5 (refresh s5 c) KT VOwn | _, _ => s5 end, uid c)
          else
            match masked_nv q mask with
            | Err x => Err x
            | Ok n2 =>
                let '(c2, s7) := spawn s5 q tw n2 in
                Ok (em_link s7 (refresh s7 c) c2, uid c)
            end
      end
  end.

Definition dc_copy (s : st) (e : ent) (tw : bool) (mask : option (list bool)) : res (st * N) :=
  match masked_nv e mask with
  | Err x => Err x
  | Ok n =>
      let '(c, s1) := new_ent s e tw n in
      let s2 := add_ent s1 c in
      let '(p, s3) := partner s2 (refresh s2 e) in
      match p with
      | Some q =>
          if ids e && ids q then
            let '(c2, s4) := new_ent s3 q tw (nv q) in
            let s5 := add_ent s4 c2 in
            Ok (dc_link s5 (refresh s5 c) c2, uid c)
          else Ok (s3, uid c)
      | None => Ok (s3, uid c)
      end
  end.

(* ------------------------------------------------------------------ histories *)
(* entities are addressed by their position in creation order *)
Inductive op :=
| OCreate (w : bool) (f : family) (r : role) (has_ids : bool) (n : nat) (defaults : list (nat * Z))
| OLink (a b : nat)                      (* a.<partner> = b *)
| OEdit (a : nat) (k : nat) (z : Z)      (* a scalar survey parameter through entity a (DC: a free metadata key) *)
| OWave (a : nat) (z : Z)                (* a.waveform = ... (TEM) *)
| OTiming (a : nat) (z : Z)              (* a.timing_mark = ... (TEM) *)
| OParam (a : nat) (kv kp : nat) (v : pval)   (* a.pitch / roll / yaw / *_offset = float | uuid | None (airborne) *)
| ONest (a : nat) (k sub : nat) (z : Z)  (* a.edit_em_metadata({k: {sub: z}}) *)
| OCrs (a : nat) (znew zdefault : Z)     (* electrode.coordinate_reference_system = {...} *)
| OUnit (a : nat) (z : Z)                (* a.unit = ... *)
| OFail (a : nat)                        (* a setter whose validation reads a class attribute that does not exist: raises first *)
| OReopen
| OCopy (a : nat) (tw : bool) (mask : option (list bool)).

Definition at_pos (s : st) (i : nat) : option ent := nth_error (ents s) i.

Definition step (s : st) (o : op) : res st :=
  match o with
  | OCreate w f r i n dflt =>
      let e := {| uid := next s; wsp := w; fam := f; rol := r; md := None; cache := None; ids := i; nv := n |} in
      let s1 := add_ent (bump s) e in
      (* the class defaults other than the link keys (unit, channels, survey type ...), as read from default_metadata *)
      (* saving the new entity reads its metadata: the class default is created and stored *)
      let s1 := if is_dc f then s1 else snd (em_md s1 e) in
      let s2 := if is_dc f then s1 else fold_left (fun acc kz => em_edit acc (refresh acc e) (fst kz) (VZ (snd kz))) dflt s1 in
      (* large-loop receivers: rx.tx_id_property = array writes "Tx ID property" *)
      Ok (if is_large f && i && match r with RA => true | RB => false end then em_edit s2 (refresh s2 e) KT VOwn else s2)
  | OLink a b =>
      match at_pos s a, at_pos s b with
      | Some ea, Some eb => Ok (if is_dc (fam ea) then dc_link s ea eb else em_link s ea eb)
      | _, _ => Err ENoEntity
      end
  | OEdit a k z =>
      match at_pos s a with
      | Some e => if is_dc (fam e) then dc_edit s e k z else Ok (em_edit s e k (VZ z))
      | None => Err ENoEntity
      end
  | OWave a z =>
      match at_pos s a with
      | Some e => if is_tem (fam e) then Ok (em_wave s e z) else Err EBadOp
      | None => Err ENoEntity
      end
  | OTiming a z =>
      match at_pos s a with
      | Some e => if is_tem (fam e) then Ok (em_timing s e z) else Err EBadOp
      | None => Err ENoEntity
      end
  | OParam a kv kp v =>
      match at_pos s a with
      | Some e => if is_airborne (fam e) then Ok (em_param s e kv kp v) else Err EAttribute   (* set_metadata exists on AirborneEMSurvey only *)
      | None => Err ENoEntity
      end
  | ONest a k sub z =>
      match at_pos s a with
      | Some e => if is_dc (fam e) then Err EBadOp else Ok (em_nest s e k sub z)
      | None => Err ENoEntity
      end
  | OCrs a zn zd =>
      match at_pos s a with
      | Some e => if is_dc (fam e) then dc_crs s e zn zd else Err EBadOp
      | None => Err ENoEntity
      end
  | OUnit a z =>
      match at_pos s a with
      | Some e => match fam e with
                  | FTipper => if tipper_units_broken then Err EAttribute   (* TipperSurvey.default_units reads a name-mangled attribute that does not exist *)
                               else Ok (em_edit s e 10 (VZ z))
                  | FDC => Err EBadOp
                  | _ => Ok (em_edit s e 10 (VZ z))
                  end
      | None => Err ENoEntity
      end
  | OFail a => match at_pos s a with Some _ => Err EAttribute | None => Err ENoEntity end
  | OReopen =>
      Ok (set_ents s (map (fun e => with_cache (with_md e None) None) (ents s)))
  | OCopy a tw mask =>
      match at_pos s a with
      | Some e => match (if is_dc (fam e) then dc_copy s e tw mask else em_copy s e tw mask) with
                  | Ok (s1, _) => Ok s1
                  | Err x => Err x
                  end
      | None => Err ENoEntity
      end
  end.

Fixpoint run (s : st) (l : list op) : res st :=
  match l with [] => Ok s | o :: r => match step s o with Ok s1 => run s1 r | Err e => Err e end end.

Definition s0 : st := {| ents := []; heap := []; wheap := []; file := []; next := 1%N |}.

(* ------------------------------------------------------------------ observations *)
(* per entity: live metadata (through the getter, nested dicts by value), stored metadata, partner, dict identity *)
Record view := { v_live : option fdict; v_stored : option fdict; v_partner : option N; v_loc : option N }.

Definition observe1 (s : st) (e : ent) : view * st :=
  let '(p, s0) := partner s e in
  (* ... then the metadata getter (the electrode partner getter may have answered from its cache) *)
  let s1 := if is_dc (fam e) then snd (dc_md s0 (refresh s0 e)) else s0 in
  let e1 := refresh s1 e in
  ({| v_live := option_map (read s1) (md e1);
      v_stored := fget (wsp e) (uid e) (file s1);
      v_partner := option_map uid p; v_loc := md e1 |}, s1).

Fixpoint observe_all (s : st) (l : list ent) : list (ent * view) * st :=
  match l with
  | [] => ([], s)
  | e :: r => let '(v, s1) := observe1 s (refresh s e) in let '(vs, s2) := observe_all s1 r in ((e, v) :: vs, s2)
  end.

(* uids -> positions in creation order (within the entity's workspace); unknown uids are reported as such *)
Fixpoint pos_of (w : bool) (u : N) (l : list ent) (i : nat) : option nat :=
  match l with [] => None | e :: r => if same_ent w u e then Some i else pos_of w u r (S i) end.

Inductive cval := CPos (i : nat) | CForeign | CZ (z : Z) | CD (d : list (nat * Z)) | COwn.
Definition cdict := list (nat * cval).

Definition canon_val (l : list ent) (w : bool) (v : fval) : cval :=
  match v with
  | FU u => match pos_of w u l 0 with
            | Some i => CPos i
            | None => if (1000 <=? u)%N then CZ (Z.of_N u)   (* the uid of a data property (a value token): only its identity matters *)
                      else CForeign
            end
  | FZ z => CZ z | FD d => CD d | FOwn => COwn
  end.
Definition canon_dict (l : list ent) (w : bool) (d : fdict) : cdict := map (fun kv => (fst kv, canon_val l w (snd kv))) d.

(* canonical view: live, stored, partner position, dict object *)
Definition cview : Type := (option cdict * option cdict * option nat * option N)%type.

Definition canon_view (l : list ent) (ev : ent * view) : cview :=
  let '(e, v) := ev in
  (option_map (canon_dict l (wsp e)) (v_live v), option_map (canon_dict l (wsp e)) (v_stored v),
   match v_partner v with Some u => pos_of (wsp e) u l 0 | None => None end, v_loc v).

(* what a quiet observation reads: the stored metadata only (no getter runs, the state is untouched) *)
Definition stored_view (s : st) (e : ent) : option cdict :=
  option_map (canon_dict (ents s) (wsp e)) (fget (wsp e) (uid e) (file s)).

Inductive mview := MFull (l : list cview) | MQuiet (l : list (option cdict)) | MErr.

(* run a history; after every operation either a full observation of every entity (partner getter, metadata getter: they act
   on the state too) or a quiet one (stored metadata only), as the flag says *)
Fixpoint run_obs (s : st) (l : list (op * bool)) : list mview :=
  match l with
  | [] => []
  | (o, full) :: r =>
      match step s o with
      | Err _ => [MErr]
      | Ok s1 =>
          if full
          then let '(vs, s2) := observe_all s1 (ents s1) in MFull (map (canon_view (ents s2)) vs) :: run_obs s2 r
          else MQuiet (map (stored_view s1) (ents s1)) :: run_obs s1 r
      end
  end.

(* ------------------------------------------------------------------ comparison with the driver's observation *)
Definition cval_eqb (a b : cval) : bool :=
  match a, b with
  | CPos x, CPos y => Nat.eqb x y
  | CForeign, CForeign => true
  | CZ x, CZ y => Z.eqb x y
  | CD x, CD y => list_eqb (fun p q => Nat.eqb (fst p) (fst q) && Z.eqb (snd p) (snd q)) x y
  | COwn, COwn => true
  | _, _ => false
  end.
Definition cdict_eqb : cdict -> cdict -> bool := list_eqb (fun p q => Nat.eqb (fst p) (fst q) && cval_eqb (snd p) (snd q)).

(* observed view: live, stored (OSame = the driver found it identical to the live one), partner position, identity class
   of the dict object *)
Inductive ostored := OSame | OStored (d : option cdict).
Definition oview : Type := (option cdict * ostored * option nat * option nat)%type.

Definition view_eqb (v : cview) (o : oview) : bool :=
  let '(lv, sv, p, _) := v in let '(lv', sv', p', _) := o in
  option_eqb cdict_eqb lv lv'
  && option_eqb cdict_eqb sv (match sv' with OSame => lv' | OStored d => d end)
  && option_eqb Nat.eqb p p'.

(* same partition: two entities share a dict object in the model iff they do in the observation *)
Definition same_partition (vs : list cview) (os : list oview) : bool :=
  forallb (fun i => forallb (fun j =>
     match nth_error vs i, nth_error vs j, nth_error os i, nth_error os j with
     | Some (_, _, _, la), Some (_, _, _, lb), Some (_, _, _, ca), Some (_, _, _, cb) =>
         Bool.eqb (match la, lb with Some x, Some y => N.eqb x y | _, _ => false end)
                  (match ca, cb with Some x, Some y => Nat.eqb x y | _, _ => false end)
     | _, _, _, _ => false
     end) (seq 0 (length vs))) (seq 0 (length vs)).

Fixpoint all2 {A B} (f : A -> B -> bool) (l : list A) (m : list B) : bool :=
  match l, m with [], [] => true | a :: l', b :: m' => f a b && all2 f l' m' | _, _ => false end.

Inductive oobs := OFull (l : list oview) | OQuiet (l : list (option cdict)) | OErr.

Definition step_eqb (m : mview) (o : oobs) : bool :=
  match m, o with
  | MErr, OErr => true
  | MFull vs, OFull os => all2 view_eqb vs os && same_partition vs os
  | MQuiet vs, OQuiet os => all2 (option_eqb cdict_eqb) vs os
  | _, _ => false
  end.

Definition check_history (l : list (op * bool)) (obs : list oobs) : bool :=
  all2 step_eqb (run_obs s0 l) obs.
