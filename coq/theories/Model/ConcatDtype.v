(* Element types of a concatenated array (property C04): what `np.hstack([self.data[alias], values])` in
   Concatenator.update_array_attribute does to the stored elements.  numpy promotes to the join of the two element types;
   the model shows that the promotion never changes a stored value, and that casting the result back to the element type of the
   array that was there first (the tempting "keep the dtype stable") does.
     DInt            int32 arrays (IntegerData handed in by a hole)
     DFloat          float arrays; a float is represented by twice its value (all driven values are integers or halves)
     DStr w          fixed width unicode <Uw                                                                      *)
From GV Require Import Prelude.Base.

Inductive dt := DInt | DFloat | DStr (w : nat).
Inductive el := EI (z : Z) | EH (twice : Z) | ES (s : list nat).
Inductive value := VNum (twice : Z) | VText (s : list nat).

Definition denote (e : el) : value := match e with EI z => VNum (2 * z) | EH t => VNum t | ES s => VText s end.

(* the element can be stored in an array of that type without loss *)
Definition fits (d : dt) (e : el) : bool :=
  match d, e with
  | DInt, EI _ => true
  | DFloat, EH _ => true
  | DStr w, ES s => Nat.leb (length s) w
  | _, _ => false
  end.

(* ndarray.astype *)
Definition cast (d : dt) (e : el) : el :=
  match d, e with
  | DInt, EH t => EI (Z.quot t 2)          (* truncation toward zero *)
  | DFloat, EI z => EH (2 * z)
  | DStr w, ES s => ES (firstn w s)        (* longer strings are cut *)
  | _, e => e
  end.

(* np.result_type within one family (numbers with numbers, text with text) *)
Definition join (a b : dt) : dt :=
  match a, b with
  | DInt, DInt => DInt
  | DInt, DFloat | DFloat, DInt | DFloat, DFloat => DFloat
  | DStr x, DStr y => DStr (Nat.max x y)
  | a, _ => a
  end.

Definition same_family (a b : dt) : bool :=
  match a, b with
  | DStr _, DStr _ => true
  | DStr _, _ | _, DStr _ => false
  | _, _ => true
  end.

Definition arr : Type := (dt * list el)%type.
Definition hstack (x y : arr) : arr :=
  let d := join (fst x) (fst y) in (d, map (cast d) (snd x ++ snd y)).
(* the rejected variant: np.hstack([...]).astype(self.data[alias].dtype) *)
Definition hstack_keep_first (x y : arr) : arr :=
  (fst x, map (cast (fst x)) (snd (hstack x y))).

Definition decode (x : arr) : list value := map denote (snd x).

(* What reaches the file: H5Writer.update_concatenated_field writes floating arrays with `astype(np.float32)` (integer and text arrays
   as they are).  float32 holds every integer and half up to 2^24 exactly; beyond that the model rounds to a multiple of 2 (an
   approximation of round-to-nearest-even that is only used to exhibit a witness).  Values are "twice the float", hence 2^25.
   Not representable here and outside the domain as well: a user value equal to FLOAT_NDV (1.17549435e-38) reads back as NaN by
   design of the no-data convention; a text / number mix under one label is stringified by numpy (the generator keeps one value
   family per data name). *)
Definition in_f32 (t : Z) : bool := Z.leb (Z.abs t) 33554432.
Definition round32 (t : Z) : Z := if in_f32 t then t else (4 * Z.quot t 4)%Z.
Definition store_el (e : el) : el := match e with EH t => EH (round32 t) | _ => e end.
Definition stored (x : arr) : arr := (fst x, map store_el (snd x)).
(* the domain on which the storage is exact: |integer| <= 2^24, |float| <= 2^24 (integers and halves) *)
Definition in_domain (e : el) : bool := match e with EI z => in_f32 (2 * z) | EH t => in_f32 t | ES _ => true end.
