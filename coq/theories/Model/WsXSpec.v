(* Specification-side definitions for the EXTENDED workspace/file model Model/WsX.v (C01, C02, C09): what "the file represents the tree",
   "structurally valid", "footprint of an operation" and "no identifier re-use over a stale node" mean.
   Definitions only. *)
From GV Require Import Prelude.Base Model.WsX.

(* one row per entity of the memory tree: key, attributes, children keys *)
Definition row : Type := (key * attrs * list key)%type.
Definition rkey (r : row) : key := fst (fst r).
Definition rattrs (r : row) : attrs := snd (fst r).
Definition rkids (r : row) : list key := snd r.
Fixpoint rows (t : tree) : list row :=
  let 'Node k a l := t in (k, a, map tkey l) :: flat_map rows l.

(* attributes equal up to the order of the property-group blocks (the file lists blocks by name, the loader returns them
   sorted by identifier, memory keeps insertion order) *)
Definition attrs_equiv (a b : attrs) : Prop :=
  aname a = aname b /\ adel a = adel b /\ aarr a = aarr b
  /\ (forall g, In g (apgs a) <-> In g (apgs b)) /\ length (apgs a) = length (apgs b).

(* the flat node stored for row r: same attributes (property-group blocks as a set: after a re-open memory holds them
   sorted by identifier while the file keeps its own order, so exact equality is NOT an invariant of the model); its
   child links are exactly r's children, each a hard link (same address) to the child's own flat node *)
Definition node_matches (m : flatmap) (r : row) : Prop :=
  exists n, fget (rkey r) m = Some n
    /\ attrs_equiv (fattrs n) (rattrs r)
    /\ NoDup (map fst (flinks n))
    /\ (forall c, In c (map fst (flinks n)) <-> In c (rkids r))
    /\ (forall c ad, In (c, ad) (flinks n) -> exists cn, fget c m = Some cn /\ faddr cn = ad).

(* property groups of a row: members are data children of that very entity, none listed twice (the scrub of a removed
   data child drops ONE occurrence); group identifiers are distinct *)
Definition pgs_ok (r : row) : Prop :=
  NoDup (map pg_id (apgs (rattrs r)))
  /\ (forall g, In g (apgs (rattrs r)) -> NoDup (pg_members g))
  /\ forall g m, In g (apgs (rattrs r)) -> In m (pg_members g) -> In m (rkids r) /\ fst m = KD.

(* The file represents tree t, up to the flat nodes of the identifiers in [pend] (dead entities not yet swept),
   which are allowed to linger as unreachable orphans. *)
Record Rep (t : tree) (f : file) (pend : list key) : Prop := {
  rep_root   : tkey t = rootkey;
  rep_nodup  : NoDup (keys_of t);
  rep_flatnd : NoDup (map fst (flat f));
  rep_rows   : forall r, In r (rows t) -> node_matches (flat f) r;
  rep_only   : forall k n, fget k (flat f) = Some n -> In k (keys_of t) \/ In k pend;
  rep_pend   : forall k, In k pend -> ~ In k (keys_of t);
  rep_rootln : exists n, fget rootkey (flat f) = Some n /\ rootlink f = Some (rootkey, faddr n);
  (* property groups list only data that are children of the same object, under distinct identifiers *)
  rep_pgs    : forall r, In r (rows t) -> pgs_ok r
}.

(* Structural validity of a geoh5 file (the clauses of C02 that the model can express): the file is exactly the
   encoding of a finite tree with unique identifiers hanging from the Root link — hence every entity is stored under
   its own identifier, every parent-to-child entry is a hard link to the child's flat node, every entity other than
   Root has exactly one parent and is reachable from Root, and no identifier occurs twice. *)
Definition Valid (f : file) : Prop := exists t, Rep t f [].

(* trees equal up to the order of children (HDF5 lists links by name, memory keeps insertion order) *)
Inductive tree_equiv : tree -> tree -> Prop :=
| te_node k a1 a2 l1 l2 :
    attrs_equiv a1 a2 -> kids_equiv l1 l2 -> tree_equiv (Node k a1 l1) (Node k a2 l2)
with kids_equiv : list tree -> list tree -> Prop :=
| ke_intro l1 l2 :
    length l1 = length l2 ->
    (forall c1, In c1 l1 -> exists c2, In c2 l2 /\ tree_equiv c1 c2) ->
    (forall c2, In c2 l2 -> exists c1, In c1 l1 /\ tree_equiv c1 c2) ->
    kids_equiv l1 l2.

(* an operation re-uses an identifier over a stale flat node when it creates an entity whose (kind, id) still has a
   node in the flat container (left by a removal through the parent that was never swept) *)
Fixpoint nodupN (l : list N) : bool :=
  match l with [] => true | h :: r => negb (existsb (N.eqb h) r) && nodupN r end.

Definition fresh_op (w : ws) (o : op) : bool :=
  match o with
  | Create k u _ _ _ => match fget (k, u) (flat (wfile w)) with Some _ => false | None => true end
  (* identifiers drawn by uuid4 are fresh: not among the object's groups / not in the file, and pairwise distinct *)
  | PgAdd o g name _ =>
      match find o (wmem w) with
      | Some t => match pg_by_name name (apgs (tattrs t)) with
                  | Some _ => true
                  | None => negb (existsb (fun h => N.eqb (pg_id h) g) (apgs (tattrs t)))
                  end
      | None => true
      end
  | Copy e q ids =>
      nodupN ids &&
      match find e (wmem w) with
      | Some te => match copy_sub te ids with
                   | Some (t', _) => forallb (fun k => match fget k (flat (wfile w)) with Some _ => false | None => true end) (keys_of t')
                   | None => true
                   end
      | None => true
      end
  | _ => true
  end.
Fixpoint fresh_run (ops : list op) (w : ws) : bool :=
  match ops with
  | [] => true
  | o :: r => fresh_op w o && fresh_run r (fst (step w o))
  end.

(* ---------------- C09: footprint of one operation on state w (keys of the flat nodes it may change) ---------------- *)
Definition subtree_keys (e : key) (t : tree) : list key :=
  match find e t with Some s => keys_of s | None => [] end.
Definition parent_list (e : key) (t : tree) : list key :=
  match parent_of e t with Some p => [p] | None => [] end.

Definition footprint (w : ws) (o : op) : list key :=
  match o with
  | Create k u p _ _ => [(k, u); p]                       (* the node it creates, the child list of the parent it joins *)
  | SetName e _ | SetDel e _ | SetArr e _ => [e]          (* the target entity *)
  | Move e q => parent_list e (wmem w) ++ [q]             (* child lists of the parents it leaves and joins *)
                ++ subtree_keys e (wmem w)                 (* (save_entity re-visits the moved subtree; proved untouched under Rep) *)
  | RemoveWs e => parent_list e (wmem w) ++ subtree_keys e (wmem w)   (* nodes it deletes, the parent's child list *)
  | RemoveParent e => parent_list e (wmem w)
  | Sweep k => filter (fun x => kind_eqb (fst x) k) (wpend w)          (* nodes of dead entities it deletes *)
  | Reopen => filter (fun x => kind_eqb (fst x) KG) (wpend w) ++ keys_of (wmem w)
  | PgAdd o _ _ _ | PgRemove o _ => [o]                   (* the object whose property-group block is rewritten *)
  | Copy e q ids =>                                       (* the parent it joins and the nodes it creates *)
      q :: match find e (wmem w) with
           | Some te => match copy_sub te ids with Some (t', _) => keys_of t' | None => [] end
           | None => []
           end
  end.

(* sharper footprint available when the file represents the tree: re-visiting stored nodes rewrites nothing *)
Definition footprint_rep (w : ws) (o : op) : list key :=
  match o with
  | Move e q => parent_list e (wmem w) ++ [q]
  | Reopen => filter (fun x => kind_eqb (fst x) KG) (wpend w)
  | _ => footprint w o
  end.

(* ---------------- side condition of the partial C01/C02 theorems ---------------- *)
(* close sweeps the dead identifiers of GROUPS only, and the workspace object that re-opens the file starts with empty
   registries: when a close + open happens while a dead object/data identifier is still pending, its flat node stays in
   the file but nobody remembers it (it can no longer be swept).  [clean_run] = this never happens in the history:
   at every Reopen all pending identifiers are groups. *)
Definition clean_op (w : ws) (o : op) : bool :=
  match o with
  | Reopen => forallb (fun k => kind_eqb (fst k) KG) (wpend w)
  | _ => true
  end.
Fixpoint clean_run (ops : list op) (w : ws) : bool :=
  match ops with
  | [] => true
  | o :: r => clean_op w o && clean_run r (fst (step w o))
  end.

(* ====================================================================================================== *)
(* Two workspaces (world) — specification vocabulary                                                        *)
(* ====================================================================================================== *)
Definition WRep (W : world) (pa pb : list key) : Prop :=
  Rep (wmem (wa W)) (wfile (wa W)) pa /\ Rep (wmem (wb W)) (wfile (wb W)) pb.

(* a cross-workspace copy is "fresh" when none of the copy's keys has a (stale) flat node in the target file and the
   identifiers it draws (uuid4) are distinct from one another and from every identifier in use: entity and group
   identifiers of the target tree, identifiers still registered as dead in the target (pending), and the entity and group
   identifiers of the copied source subtree (which the copy keeps whenever they are free in the target) *)
Definition wfresh_op (W : world) (o : wop) : bool :=
  match o with
  | On i o' => fresh_op (wsel i W) o'
  | CopyX i e q ids =>
      let src := wsel i W in let tgt := wsel (negb i) W in
      nodupN ids
      && forallb (fun j => negb (memN j (map snd (keys_of (wmem tgt))))) ids
      && forallb (fun j => negb (memN j (all_pg_ids (wmem tgt)))) ids
      && forallb (fun j => negb (memN j (map snd (wpend tgt)))) ids
      && match find e (wmem src) with
         | Some te =>
             forallb (fun j => negb (memN j (map snd (keys_of te)))) ids
             && forallb (fun j => negb (memN j (all_pg_ids te))) ids
             && match copy_x (map snd (keys_of (wmem tgt))) (all_pg_ids (wmem tgt)) te ids with
                | Some (t', _, _, _) =>
                    forallb (fun k => match fget k (flat (wfile tgt)) with Some _ => false | None => true end) (keys_of t')
                | None => true
                end
         | None => true
         end
  end.
Fixpoint wfresh_run (ops : list wop) (W : world) : bool :=
  match ops with [] => true | o :: r => wfresh_op W o && wfresh_run r (fst (wstep W o)) end.

(* a cross-workspace copy forgets every dead registry entry of the target whose identifier is one of the copied source
   identifiers (of any kind); [wclean_op] = there is no such entry, so nothing that may still have a flat node is forgotten *)
Definition wclean_op (W : world) (o : wop) : bool :=
  match o with
  | On i o' => clean_op (wsel i W) o'
  | CopyX i e q ids =>
      match find e (wmem (wsel i W)) with
      | Some te => forallb (fun k => negb (memN (snd k) (map snd (keys_of te)))) (wpend (wsel (negb i) W))
      | None => true
      end
  end.
Fixpoint wclean_run (ops : list wop) (W : world) : bool :=
  match ops with [] => true | o :: r => wclean_op W o && wclean_run r (fst (wstep W o)) end.

(* identifier-free shape of a subtree: kind, attributes, property groups as (name, positions of the members among the
   children), children — "a copy equals its source" is equality of shapes *)
Inductive shape := SNode (k : kind) (name : N) (del : bool) (arr : N) (pgs : list (N * list (option nat))) (kids : list shape).
Fixpoint pos_of (x : key) (l : list key) : option nat :=
  match l with [] => None | h :: r => if key_eqb x h then Some 0 else option_map S (pos_of x r) end.
Fixpoint erase (t : tree) : shape :=
  let 'Node k a l := t in
  SNode (fst k) (aname a) (adel a) (aarr a)
        (map (fun g => (pg_name g, map (fun m => pos_of m (map tkey l)) (pg_members g))) (apgs a))
        (map erase l).

(* C09 sharpening: the only nodes whose scalar attributes or array an operation may rewrite *)
Definition content_targets (w : ws) (o : op) : list key :=
  match o with
  | SetName e _ | SetDel e _ | SetArr e _ => [e]
  | _ => []
  end.

(* kinds nest as the API allows (can_hold): groups hold groups and objects and carry no property group; an object's
   children are data leaves without property groups; data hold nothing — hypothesis of the shape theorems *)
Definition leaf_data (c : tree) : Prop := fst (tkey c) = KD /\ apgs (tattrs c) = [] /\ tkids c = [].
Fixpoint well_kinded (t : tree) : Prop :=
  let 'Node k a l := t in
  match fst k with
  | KG => apgs a = [] /\ (fix all (l : list tree) : Prop := match l with [] => True | c :: r => well_kinded c /\ all r end) l
  | KO => forall c, In c l -> leaf_data c
  | KD => apgs a = [] /\ l = []
  end.
