(* Model of the geometry-editing code of geoh5py (properties C07 and, through the masked copy, C13).
   Definitions only; proofs live in Proofs/GeometryProofs.v.

   Python transcribed (file:function -> definition here):
     objects/points.py       Points.remove_vertices                    -> points_remove_vertices
                             Points.copy (mask branch)                 -> masked_copy (OPoints)
     objects/cell_object.py  CellObject.remove_cells                   -> remove_cells
                             CellObject.remove_vertices                -> cell_remove_vertices
                               (keep mask, vertex data, new_index, remove_cells(np.where(..)) *including its
                                np.max on a possibly empty index array*, renumbering)
                             CellObject.copy (mask / cell_mask)        -> masked_copy
     objects/object_base.py  ObjectBase.remove_children_values         -> rcv
                             ObjectBase.add_data (value path)          -> add_data
                             ObjectBase.copy (children, mask)          -> copy_kids
     data/numeric_data.py    NumericData.format_length / values setter -> format_length / set_values
                             NumericData.values getter after re-open   -> read_file
     data/data.py            Data.copy (mask branch), n_values         -> data_copy / n_values
     io/h5_reader.py         H5Reader.fetch_values on a zero-length dataset (values[0] -> IndexError) -> read_file
     numpy                   np.delete / x[idx] = False (negative indices wrap, out of bounds -> IndexError),
                             np.max of an empty array -> ValueError, boolean-mask selection      -> np_delete, keep_mask, select

   The model follows the code that exists.  Two places where the pinned tree misbehaves are switchable by [flags] so
   that one model covers the pinned tree ([as_is]) and the tree with fixes/C07-*.patch applied ([repaired]); the flags
   used for the correspondence are read off the source on every run (tools/props/c07.py:regenerate).               *)
From GV Require Import Prelude.Base.

Inductive err := ValueError | IndexError | AxisError | TypeError.
Inductive res (A : Type) := Ok (a : A) | Err (e : err).
Arguments Ok {A} a.
Arguments Err {A} e.

Definition err_eqb (a b : err) : bool :=
  match a, b with
  | ValueError, ValueError | IndexError, IndexError | AxisError, AxisError | TypeError, TypeError => true
  | _, _ => false
  end.

(* ------------------------------------------------------------------ numpy-like primitives *)
Definition pt : Type := (Z * Z * Z)%type.

Fixpoint count (m : list bool) : nat :=
  match m with [] => 0 | b :: r => (if b then 1 else 0) + count r end.

(* x[mask] for equal lengths *)
Fixpoint select {A} (m : list bool) (l : list A) : list A :=
  match m, l with
  | b :: m', x :: l' => if b then x :: select m' l' else select m' l'
  | _, _ => []
  end.

(* position of element i of the input in x[mask]: number of kept elements before it *)
Definition rank (m : list bool) (i : nat) : nat := count (firstn i m).

(* python index -> position, negative indices wrap; None = out of bounds *)
Definition norm_index (n : nat) (i : Z) : option nat :=
  if (0 <=? i)%Z then (if (i <? Z.of_nat n)%Z then Some (Z.to_nat i) else None)
  else if (- Z.of_nat n <=? i)%Z then Some (Z.to_nat (i + Z.of_nat n)) else None.

Fixpoint norm_all (n : nat) (I : list Z) : option (list nat) :=
  match I with
  | [] => Some []
  | i :: r => match norm_index n i, norm_all n r with
              | Some a, Some b => Some (a :: b)
              | _, _ => None
              end
  end.

Definition memb (i : nat) (I : list nat) : bool := existsb (Nat.eqb i) I.

(* keep = ones(n, bool); keep[I] = False *)
Definition keep_mask (n : nat) (I : list nat) : list bool := map (fun i => negb (memb i I)) (seq 0 n).

(* np.delete(l, I, axis=0) *)
Definition np_delete {A} (l : list A) (I : list Z) : res (list A) :=
  match norm_all (length l) I with
  | None => Err IndexError
  | Some I' => Ok (select (keep_mask (length l) I') l)
  end.

(* `np.max(indices) > n - 1` guard shared by the three removal methods; np.max([]) raises ValueError *)
Definition zmax (l : list Z) : option Z :=
  match l with [] => None | x :: r => Some (fold_left Z.max r x) end.

Definition check_max (n : nat) (I : list Z) : res unit :=
  match zmax I with
  | None => Err ValueError
  | Some mx => if (Z.of_nat n - 1 <? mx)%Z then Err ValueError else Ok tt
  end.

(* ------------------------------------------------------------------ objects and their data children *)
Inductive assoc := AVertex | ACell | AObject.
Inductive dkind := KFloat | KInt | KBool | KText.
Inductive okind := OPoints | OCurve | OSurface.

Definition assoc_eqb (a b : assoc) : bool :=
  match a, b with AVertex, AVertex | ACell, ACell | AObject, AObject => true | _, _ => false end.
Definition dkind_eqb (a b : dkind) : bool :=
  match a, b with KFloat, KFloat | KInt, KInt | KBool, KBool | KText, KText => true | _, _ => false end.
Definition okind_eqb (a b : okind) : bool :=
  match a, b with OPoints, OPoints | OCurve, OCurve | OSurface, OSurface => true | _, _ => false end.

(* None = the kind's no-data marker (nan for floats, INTEGER_NDV for integers) *)
Definition vals := list (option Z).

Record kid := { kid_id : nat; kassoc : assoc; kkind : dkind; kvals : option vals }.
Record obj := { ok : okind; verts : list pt; cells : list (list nat); kids : list kid }.

Definition set_vals (k : kid) (v : option vals) : kid :=
  {| kid_id := kid_id k; kassoc := kassoc k; kkind := kkind k; kvals := v |}.
Definition set_verts (o : obj) (v : list pt) : obj := {| ok := ok o; verts := v; cells := cells o; kids := kids o |}.
Definition set_cells (o : obj) (c : list (list nat)) : obj := {| ok := ok o; verts := verts o; cells := c; kids := kids o |}.
Definition set_kids (o : obj) (k : list kid) : obj := {| ok := ok o; verts := verts o; cells := cells o; kids := k |}.

Record flags := { f_guard_cells : bool;      (* CellObject.remove_vertices skips remove_cells when no cell is touched *)
                  f_skip_valueless : bool;   (* remove_children_values skips children that have no values *)
                  f_read_empty : bool;       (* H5Reader.fetch_values accepts a zero-length dataset *)
                  f_copy_text : bool;        (* Data.copy blanks with np.full_like (works for str arrays) *)
                  f_add_rollback : bool;     (* Entity.__init__ detaches the child again when an attribute setter refuses *)
                  f_write_empty_text : bool }. (* H5Writer.write_data_values can write a zero-length text array *)
Definition as_is : flags := {| f_guard_cells := false; f_skip_valueless := false; f_read_empty := false; f_copy_text := false;
                               f_add_rollback := false; f_write_empty_text := false |}.
Definition repaired : flags := {| f_guard_cells := true; f_skip_valueless := true; f_read_empty := true; f_copy_text := true;
                                  f_add_rollback := true; f_write_empty_text := true |}.

(* H5Writer.write_data_values tests values[0] of a text array: a zero-length text array cannot be written (IndexError);
   the values setter has already stored it in memory, the old dataset is already deleted *)
Definition text_empty (k : dkind) (v : vals) : bool :=
  dkind_eqb k KText && match v with [] => true | _ => false end.
(* ... unless the writer gives the empty dataset an explicit variable-length string type (repaired) *)
Definition text_blocked (fl : flags) (k : dkind) (v : vals) : bool := text_empty k v && negb (f_write_empty_text fl).

(* what a failing operation leaves behind is part of the model *)
Inductive outcome := Done (o : obj) | Failed (e : err) (o : obj).
Definition state_of (r : outcome) : obj := match r with Done o => o | Failed _ o => o end.
Definition err_of (r : outcome) : option err := match r with Done _ => None | Failed e _ => Some e end.

(* Data.n_values *)
Definition n_values (o : obj) (a : assoc) : nat :=
  match a with AVertex => length (verts o) | ACell => length (cells o) | AObject => 1 end.

(* value that `np.ones(n) * self.nan_value` pads with *)
Definition ndv (k : dkind) : option Z := match k with KBool => Some 0%Z | _ => None end.

(* NumericData.format_length (pad / reject); TextData.values setter: a longer array is refused, a shorter one is stored
   as it is (text data are never padded); text values are modelled by integer codes, None = "" *)
Definition format_length (n : nat) (k : dkind) (a : assoc) (v : vals) : res vals :=
  if length v <? n then
    match k with KText => Ok v | _ => Ok (v ++ repeat (ndv k) (n - length v)) end
  else if (n <? length v) && negb (assoc_eqb a AObject) then Err ValueError
  else Ok v.

(* ObjectBase.remove_children_values(indices, association): children in order; the first failure stops the loop
   with the earlier children already rewritten.  [n] = the parent's *current* element count (geometry is replaced
   before this runs), used by the values setter (format_length). *)
Fixpoint rcv (fl : flags) (I : list Z) (a : assoc) (n : nat) (ks : list kid) : list kid * option err :=
  match ks with
  | [] => ([], None)
  | k :: r =>
      if assoc_eqb (kassoc k) a then
        match kvals k with
        | None =>
            if f_skip_valueless fl then let (r', e) := rcv fl I a n r in (k :: r', e)
            else (k :: r, Some AxisError)           (* np.delete(None, indices, axis=0) *)
        | Some v =>
            match np_delete v I with
            | Err e => (k :: r, Some e)
            | Ok v' =>
                match format_length n (kkind k) (kassoc k) v' with
                | Err e => (k :: r, Some e)
                | Ok v'' =>
                    if text_blocked fl (kkind k) v'' then (set_vals k (Some v'') :: r, Some IndexError)
                    else let (r', e) := rcv fl I a n r in (set_vals k (Some v'') :: r', e)
                end
            end
        end
      else let (r', e) := rcv fl I a n r in (k :: r', e)
  end.

Definition finish (o : obj) (ke : list kid * option err) : outcome :=
  match snd ke with Some e => Failed e (set_kids o (fst ke)) | None => Done (set_kids o (fst ke)) end.

(* Points.remove_vertices *)
Definition points_remove_vertices (fl : flags) (o : obj) (I : list Z) : outcome :=
  match check_max (length (verts o)) I with
  | Err e => Failed e o
  | Ok _ =>
      match np_delete (verts o) I with
      | Err e => Failed e o
      | Ok vs' => let o1 := set_verts o vs' in finish o1 (rcv fl I AVertex (length vs') (kids o1))
      end
  end.

(* CellObject.remove_cells *)
Definition remove_cells (fl : flags) (o : obj) (I : list Z) : outcome :=
  match check_max (length (cells o)) I with
  | Err e => Failed e o
  | Ok _ =>
      match np_delete (cells o) I with
      | Err e => Failed e o
      | Ok cs' => let o1 := set_cells o cs' in finish o1 (rcv fl I ACell (length cs') (kids o1))
      end
  end.

(* np.all(vert_index[cells], axis=1); fancy indexing out of range raises IndexError (None) *)
Fixpoint cell_kept (m : list bool) (c : list nat) : option bool :=
  match c with
  | [] => Some true
  | v :: r => match nth_error m v, cell_kept m r with
              | Some b, Some b' => Some (b && b')
              | _, _ => None
              end
  end.

Fixpoint cells_kept (m : list bool) (cs : list (list nat)) : option (list bool) :=
  match cs with
  | [] => Some []
  | c :: r => match cell_kept m c, cells_kept m r with
              | Some b, Some bs => Some (b :: bs)
              | _, _ => None
              end
  end.

(* np.where(~kept)[0] *)
Fixpoint where_false_from (i : nat) (bs : list bool) : list nat :=
  match bs with
  | [] => []
  | b :: r => if b then where_false_from (S i) r else i :: where_false_from (S i) r
  end.
Definition where_false := where_false_from 0.

(* new_index = ones(n, int); new_index[vert_index] = arange(n_kept) *)
Definition new_index (m : list bool) (i : nat) : nat := if nth i m false then rank m i else 1.

(* CellObject.remove_vertices *)
Definition cell_remove_vertices (fl : flags) (o : obj) (I : list Z) : outcome :=
  let n := length (verts o) in
  match check_max n I with
  | Err e => Failed e o
  | Ok _ =>
      match norm_all n I with
      | None => Failed IndexError o                       (* vert_index[indices] = False *)
      | Some I' =>
          let m := keep_mask n I' in
          let vs' := select m (verts o) in
          let o1 := set_verts o vs' in
          match finish o1 (rcv fl I AVertex (length vs') (kids o1)) with
          | Failed e o2 => Failed e o2
          | Done o2 =>
              match cells_kept m (cells o2) with
              | None => Failed IndexError o2
              | Some kept =>
                  let T := where_false kept in
                  let r := if f_guard_cells fl && (match T with [] => true | _ => false end)
                           then Done o2
                           else remove_cells fl o2 (map Z.of_nat T) in
                  match r with
                  | Failed e o3 => Failed e o3
                  | Done o3 => Done (set_cells o3 (map (map (new_index m)) (cells o3)))
                  end
              end
          end
      end
  end.

Definition remove_vertices (fl : flags) (o : obj) (I : list Z) : outcome :=
  match ok o with
  | OPoints => points_remove_vertices fl o I
  | _ => cell_remove_vertices fl o I
  end.

(* ------------------------------------------------------------------ values setter / add_data *)
Fixpoint update_kid (id : nat) (f : kid -> res kid) (ks : list kid) : option (res (list kid)) :=
  match ks with
  | [] => None
  | k :: r =>
      if Nat.eqb (kid_id k) id then
        Some (match f k with Ok k' => Ok (k' :: r) | Err e => Err e end)
      else match update_kid id f r with
           | None => None
           | Some (Ok r') => Some (Ok (k :: r'))
           | Some (Err e) => Some (Err e)
           end
  end.

(* child.values = v : format_values -> format_length against the parent's current count; nothing is stored on refusal *)
Definition set_values (o : obj) (id : nat) (v : vals) : outcome :=
  match update_kid id (fun k => match format_length (n_values o (kassoc k)) (kkind k) (kassoc k) v with
                                | Ok v' => Ok (set_vals k (Some v'))
                                | Err e => Err e
                                end) (kids o) with
  | None => Failed TypeError o          (* no such child: not generated *)
  | Some (Ok ks) => Done (set_kids o ks)
  | Some (Err e) => Failed e o
  end.

(* parent.add_data({name: {association, values}}): the constructor attaches the child to the parent *before* the values
   setter runs.  Entity.__init__ either runs map_attributes inside its try block and detaches the child again when a setter
   refuses ([f_add_rollback]: the object is exactly as before), or runs it outside: a refused array then leaves a value-less
   child named "Entity" (id 0 here) that is written with the rest when the workspace closes *)
Definition add_data (fl : flags) (o : obj) (id : nat) (a : assoc) (k : dkind) (v : option vals) : outcome :=
  match v with
  | None => Done (set_kids o (kids o ++ [{| kid_id := id; kassoc := a; kkind := k; kvals := None |}]))
  | Some v =>
      match format_length (n_values o a) k a v with
      | Ok v' => Done (set_kids o (kids o ++ [{| kid_id := id; kassoc := a; kkind := k; kvals := Some v' |}]))
      | Err e => if f_add_rollback fl then Failed e o
                 else Failed e (set_kids o (kids o ++ [{| kid_id := 0; kassoc := a; kkind := k; kvals := None |}]))
      end
  end.

(* ------------------------------------------------------------------ masked copy *)
Fixpoint fill_masked (nv : option Z) (m : list bool) (v : vals) : vals :=
  match m, v with
  | b :: m', x :: v' => (if b then x else nv) :: fill_masked nv m' v'
  | _, _ => []
  end.

(* Data.copy(parent=new, mask=m): [n_new] = n_cells / n_vertices of the new parent *)
Definition data_copy (fl : flags) (n_new : nat) (m : option (list bool)) (k : kid) : res kid :=
  let k0 := {| kid_id := kid_id k; kassoc := kassoc k; kkind := kkind k; kvals := kvals k |} in
  match kvals k, m with
  | Some v, Some m =>
      if negb (Nat.eqb (length m) (length v)) then Err ValueError
      else
        if negb (n_new <? length v) && dkind_eqb (kkind k) KText && negb (f_copy_text fl)
        then Err TypeError                                            (* np.ones_like(str array) * "" *)
        else
        let v' := if n_new <? length v then select m v else fill_masked (ndv (kkind k)) m v in
        match format_length n_new (kkind k) (kassoc k) v' with      (* the copy's constructor runs the values setter *)
        | Ok v'' => if text_blocked fl (kkind k) v'' then Err IndexError     (* the copy's empty text array cannot be written *)
                    else Ok (set_vals k0 (Some v''))
        | Err e => Err e
        end
  | _, _ => Ok k0
  end.

Fixpoint copy_kids (fl : flags) (nv nc : nat) (vm cm : option (list bool)) (ks : list kid) : res (list kid) :=
  match ks with
  | [] => Ok []
  | k :: r =>
      let m := match kassoc k with AVertex => vm | ACell => cm | AObject => None end in
      let n := match kassoc k with AVertex => nv | ACell => nc | AObject => 1 end in
      match data_copy fl n m k, copy_kids fl nv nc vm cm r with
      | Ok k', Ok r' => Ok (k' :: r')
      | Err e, _ => Err e
      | _, Err e => Err e
      end
  end.

Definition new_id (m : list bool) (i : nat) : nat := if nth i m false then rank m i else 1.

(* Points.copy / CellObject.copy with mask (vertex mask) and/or cell_mask; a failure leaves the source untouched
   (a half-built copy may exist elsewhere in the workspace: not part of this state) *)
Definition masked_copy (fl : flags) (o : obj) (vm cm : option (list bool)) : outcome :=
  match ok o with
  | OPoints =>
      match vm with
      | None => match copy_kids fl (length (verts o)) 0 None None (kids o) with
                | Ok ks => Done (set_kids o ks) | Err e => Failed e o end
      | Some m =>
          if negb (Nat.eqb (length m) (length (verts o))) then Failed ValueError o
          else let vs' := select m (verts o) in
               (* ObjectBase.copy hands the vertex mask to VERTEX *and* CELL children *)
               match copy_kids fl (length vs') 0 (Some m) (Some m) (kids o) with
               | Ok ks => Done {| ok := ok o; verts := vs'; cells := []; kids := ks |}
               | Err e => Failed e o
               end
      end
  | _ =>
      match vm with
      | Some m =>
          if negb (Nat.eqb (length m) (length (verts o))) then Failed ValueError o
          else
            let vs' := select m (verts o) in
            match (match cm with Some c => Some c | None => cells_kept m (cells o) end) with
            | None => Failed IndexError o
            | Some c =>
                if negb (Nat.eqb (length c) (length (cells o))) && negb (match c with [] => true | _ => false end)
                then Failed IndexError o   (* numpy: a boolean index of the wrong length raises, except a zero-length one, which selects nothing *)
                else
                  let cs' := select c (map (map (new_id m)) (cells o)) in
                  match copy_kids fl (length vs') (length cs') (Some m) (Some c) (kids o) with
                  | Ok ks => Done {| ok := ok o; verts := vs'; cells := cs'; kids := ks |}
                  | Err e => Failed e o
                  end
            end
      | None =>
          match cm with
          | None => match copy_kids fl (length (verts o)) (length (cells o)) None None (kids o) with
                    | Ok ks => Done (set_kids o ks) | Err e => Failed e o end
          | Some c =>
              if negb (Nat.eqb (length c) (length (cells o))) && negb (match c with [] => true | _ => false end)
                then Failed IndexError o   (* numpy: a boolean index of the wrong length raises, except a zero-length one, which selects nothing *)
              else
                let cs' := select c (cells o) in
                match copy_kids fl (length (verts o)) (length cs') None (Some c) (kids o) with
                | Ok ks => Done {| ok := ok o; verts := verts o; cells := cs'; kids := ks |}
                | Err e => Failed e o
                end
          end
      end
  end.

(* ------------------------------------------------------------------ re-open *)
Fixpoint take_kid (id : nat) (ks : list kid) : option (kid * list kid) :=
  match ks with
  | [] => None
  | k :: r => if Nat.eqb (kid_id k) id then Some (k, r)
              else match take_kid id r with Some (x, r') => Some (x, k :: r') | None => None end
  end.

(* children come back in the file's (uuid) order, which the driver reports *)
Fixpoint reorder (order : list nat) (ks : list kid) : option (list kid) :=
  match order with
  | [] => match ks with [] => Some [] | _ => None end
  | i :: r => match take_kid i ks with
              | None => None
              | Some (k, ks') => match reorder r ks' with Some l => Some (k :: l) | None => None end
              end
  end.

Definition reopen (o : obj) (order : list nat) : option obj :=
  match reorder order (kids o) with
  | Some ks => Some (set_kids o ks)
  | None => None
  end.

(* ------------------------------------------------------------------ histories *)
Inductive op :=
  | RemoveVertices (I : list Z)
  | RemoveCells (I : list Z)
  | SetValues (id : nat) (v : vals)
  | AddData (id : nat) (a : assoc) (k : dkind) (v : option vals)
  | MaskedCopy (vm cm : option (list bool))      (* the copy becomes the current object *)
  | Reopen (order : list nat).

Definition step (fl : flags) (o : obj) (p : op) : option outcome :=
  match p with
  | RemoveVertices ix => Some (remove_vertices fl o ix)
  | RemoveCells ix => Some (match ok o with OPoints => Failed TypeError o | _ => remove_cells fl o ix end)
  | SetValues id v => Some (set_values o id v)
  | AddData id a k v =>
      match ok o, a with
      | OPoints, ACell => None   (* Points have no cell count (n_values is None): cell data on Points is outside the model *)
      | _, _ => Some (add_data fl o id a k v)
      end
  | MaskedCopy vm cm => Some (masked_copy fl o vm cm)
  | Reopen order => option_map Done (reopen o order)
  end.

(* total version used by the history theorems: an impossible child order leaves the state as it is *)
Definition step_state (fl : flags) (o : obj) (p : op) : obj :=
  match step fl o p with Some r => state_of r | None => o end.
Definition run (fl : flags) (o : obj) (ops : list op) : obj := fold_left (step_state fl) ops o.

(* ------------------------------------------------------------------ consistency ("data aligned with geometry") *)
Definition kid_ok (o : obj) (k : kid) : Prop :=
  match kvals k, kassoc k with
  | Some v, AVertex => length v = length (verts o)
  | Some v, ACell => length v = length (cells o)
  | _, _ => True
  end.
Definition cell_ok (n : nat) (c : list nat) : Prop := Forall (fun v => v < n) c.
Definition not_cell (k : kid) : Prop := kassoc k <> ACell.
Definition wf (o : obj) : Prop :=
  Forall (cell_ok (length (verts o))) (cells o) /\ Forall (kid_ok o) (kids o) /\
  (ok o = OPoints -> cells o = [] /\ Forall not_cell (kids o)).

Definition kid_okb (o : obj) (k : kid) : bool :=
  match kvals k, kassoc k with
  | Some v, AVertex => Nat.eqb (length v) (length (verts o))
  | Some v, ACell => Nat.eqb (length v) (length (cells o))
  | _, _ => true
  end.
Definition wfb (o : obj) : bool :=
  forallb (forallb (fun v => v <? length (verts o))) (cells o) && forallb (kid_okb o) (kids o)
  && (negb (okind_eqb (ok o) OPoints)
      || (match cells o with [] => true | _ => false end) && forallb (fun k => negb (assoc_eqb (kassoc k) ACell)) (kids o)).

(* the cells all of whose vertices are kept by a vertex mask (np.all(mask[cells], axis=1) on in-range cells) *)
Definition cell_mask (m : list bool) (cs : list (list nat)) : list bool :=
  map (fun c => forallb (fun v => nth v m false) c) cs.

(* ------------------------------------------------------------------ observations (correspondence files) *)
Inductive rval := RV (v : option vals) | RS (x : option Z) (* a scalar string *) | RE (e : err).
Definition osnap : Type := (list pt * list (list nat) * list (nat * assoc * rval))%type.

Definition snap_live (o : obj) : osnap :=
  (verts o, cells o, map (fun k => (kid_id k, kassoc k, RV (kvals k))) (kids o)).

(* NumericData.values getter on a freshly opened file: fetch_values (IndexError on a zero-length dataset) then
   format_values against the parent's count (pads a short array in memory, refuses a long one) *)
Definition read_file (fl : flags) (o : obj) (k : kid) : rval :=
  match kvals k with
  | None => RV None
  | Some v =>
      if dkind_eqb (kkind k) KText then
        (* TextData.values getter: no length check; an empty text array never reached the file; H5Reader.fetch_values turns
           a one-entry string array into a scalar str *)
        match v with [] => if f_write_empty_text fl then RV (Some []) else RV None | [x] => RS x | _ => RV (Some v) end
      else
      if (match v with [] => negb (f_read_empty fl) | _ => false end) then RE IndexError
      else match format_length (n_values o (kassoc k)) (kkind k) (kassoc k) v with
           | Ok v' => RV (Some v') | Err e => RE e end
  end.
Definition snap_file (fl : flags) (o : obj) : osnap :=
  (verts o, cells o, map (fun k => (kid_id k, kassoc k, read_file fl o k)) (kids o)).

Definition pt_eqb (a b : pt) : bool :=
  let '(x1, y1, z1) := a in let '(x2, y2, z2) := b in Z.eqb x1 x2 && Z.eqb y1 y2 && Z.eqb z1 z2.
Definition vals_eqb : vals -> vals -> bool := list_eqb (option_eqb Z.eqb).
Definition rval_eqb (a b : rval) : bool :=
  match a, b with
  | RV x, RV y => option_eqb vals_eqb x y
  | RS x, RS y => option_eqb Z.eqb x y
  | RE x, RE y => err_eqb x y
  | _, _ => false
  end.
Definition okid_eqb (a b : nat * assoc * rval) : bool :=
  let '(i1, a1, v1) := a in let '(i2, a2, v2) := b in Nat.eqb i1 i2 && assoc_eqb a1 a2 && rval_eqb v1 v2.
Definition snap_eqb (a b : osnap) : bool :=
  let '(v1, c1, k1) := a in let '(v2, c2, k2) := b in
  list_eqb pt_eqb v1 v2 && list_eqb (list_eqb Nat.eqb) c1 c2 && list_eqb okid_eqb k1 k2.

Definition is_reopen (p : op) : bool := match p with Reopen _ => true | _ => false end.

(* the model, run on this history, yields exactly these outcomes and snapshots *)
Fixpoint check_trace (fl : flags) (o : obj) (steps : list (op * (option err * osnap))) : bool :=
  match steps with
  | [] => true
  | (p, (e, s)) :: r =>
      match step fl o p with
      | None => false
      | Some out =>
          let o' := state_of out in
          option_eqb err_eqb (err_of out) e
          && snap_eqb (if is_reopen p then snap_file fl o' else snap_live o') s
          && check_trace fl o' r
      end
  end.

(* ------------------------------------------------------------------ Data.copy(parent = any object, mask = m) observed alone
   [n_new] = number of vertices / cells of the target parent (the source's own parent or another object): what the new
   data child holds, or the error *)
Definition data_copy_obs (fl : flags) (n_new : nat) (m : list bool) (k : kid) : res (option vals) :=
  match data_copy fl n_new (Some m) k with Ok k' => Ok (kvals k') | Err e => Err e end.

Definition dcopy_agrees (fl : flags) (n_new : nat) (m : list bool) (k : kid) (obs : res (option vals)) : bool :=
  match data_copy_obs fl n_new m k, obs with
  | Ok x, Ok y => option_eqb vals_eqb x y
  | Err x, Err y => err_eqb x y
  | _, _ => false
  end.
