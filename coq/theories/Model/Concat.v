(* Model of the index layer of geoh5py/shared/concatenation/concatenator.py (property C04).
   Definitions only; proofs live in Proofs/ConcatProofs.v.

   Python transcribed (Concatenator):
     _index[label]  : structured array of rows (Start index <u4, Size <u4, Object ID, Data ID)
     _data[label]   : the concatenated values
     fetch_index           (np.where(col == uid)[0]; a hit only when exactly one row matches)
     delete_index_data     (np.delete of the slice, `Start index[Start index > start] -= size`, np.delete of the row)
     fetch_start_index     (delete the old slice if found: start = len(data); else start = sum(Size); else 0)
     update_array_attribute(remove-then-append; `remove=True` / `values is None` only removes)
     fetch_values          (data[start : start + size])

   Identifiers are numbered: uuids are mapped to nat (0 = the null uuid written as Data ID of object level rows),
   labels to nat (label < 10: arrays of the hole itself - Surveys 0, Trace 1, Property Group IDs 2 - looked up by
   Object ID; label >= 10: data names, looked up by Data ID).                                              *)
From GV Require Import Prelude.Base.

Inductive err := IndexError | U4Wrap | KeyError | ValueError | AttributeError | Unsupported.
Inductive res (A : Type) := Ok (a : A) | Err (e : err).
Arguments Ok {A} a.
Arguments Err {A} e.

Definition val := option Z.   (* None = NaN (padding written by the library) *)

Record row := mkrow { start : nat; size : nat; oid : nat; did : nat }.
Record table := mktab { rows : list row; data : list val }.

(* which column fetch_index compares: isinstance(entity, ConcatenatedData) -> "Data ID", else "Object ID" *)
Inductive who := ByData (d : nat) | ByObj (o : nat).
Definition matches (w : who) (r : row) : bool :=
  match w with ByData d => Nat.eqb (did r) d | ByObj o => Nat.eqb (oid r) o end.

(* np.where(index[field][col] == uid)[0], positions counted from i *)
Fixpoint where_from (w : who) (rs : list row) (i : nat) : list nat :=
  match rs with
  | [] => []
  | r :: rs' => if matches w r then i :: where_from w rs' (S i) else where_from w rs' (S i)
  end.

Definition fetch_index (t : table) (w : who) : option nat :=
  match where_from w (rows t) 0 with [i] => Some i | _ => None end.

Fixpoint sum_sizes (rs : list row) : nat :=
  match rs with [] => 0 | r :: rs' => size r + sum_sizes rs' end.

Fixpoint remove_nth {A} (i : nat) (l : list A) : list A :=
  match l, i with
  | [], _ => []
  | _ :: r, 0 => r
  | x :: r, S i' => x :: remove_nth i' r
  end.

(* `Start index[Start index > s] -= n` on a <u4 column: a row with s < start < n would silently wrap around 2^32;
   the model stops with U4Wrap there (theorem C04_delete_safe: unreachable from tiled tables) instead of relying
   on truncated subtraction. *)
Definition shift (s n : nat) (r : row) : res row :=
  if Nat.ltb s (start r)
  then (if Nat.leb n (start r) then Ok (mkrow (start r - n) (size r) (oid r) (did r)) else Err U4Wrap)
  else Ok r.

Fixpoint map_res {A B} (f : A -> res B) (l : list A) : res (list B) :=
  match l with
  | [] => Ok []
  | x :: r => match f x with
              | Err e => Err e
              | Ok y => match map_res f r with Err e => Err e | Ok ys => Ok (y :: ys) end
              end
  end.

(* np.delete(data, np.arange(s, s+n)) raises IndexError when an index is out of bounds *)
Definition delete_index_data (t : table) (i : nat) : res table :=
  match nth_error (rows t) i with
  | None => Err IndexError
  | Some r =>
      let s := start r in
      let n := size r in
      if Nat.ltb 0 n && Nat.ltb (length (data t)) (s + n) then Err IndexError
      else match map_res (shift s n) (rows t) with
           | Err e => Err e
           | Ok rs => Ok (mktab (remove_nth i rs) (firstn s (data t) ++ skipn (s + n) (data t)))
           end
  end.

Definition fetch_start_index (ot : option table) (w : who) : res (option table * nat) :=
  match ot with
  | None => Ok (None, 0)                                    (* label not in self.index *)
  | Some t =>
      match fetch_index t w with
      | Some i => match delete_index_data t i with
                  | Err e => Err e
                  | Ok t' => Ok (Some t', length (data t'))   (* start = self.data[label].shape[0] *)
                  end
      | None => Ok (Some t, sum_sizes (rows t))               (* start = np.sum(index[label]["Size"]) *)
      end
  end.

(* update_array_attribute for one label; vals = None stands for `values is None or remove` *)
Definition update_array (ot : option table) (w : who) (o d : nat) (vals : option (list val)) : res (option table) :=
  match fetch_start_index ot w with
  | Err e => Err e
  | Ok (ot', st) =>
      match vals with
      | None => Ok ot'
      | Some vs =>
          let r := mkrow st (length vs) o d in
          Ok (Some match ot' with
                   | None => mktab [r] vs
                   | Some t' => mktab (rows t' ++ [r]) (data t' ++ vs)
                   end)
      end
  end.

Definition fetch_values (t : table) (w : who) : option (list val) :=
  match fetch_index t w with
  | None => None
  | Some i => match nth_error (rows t) i with
              | None => None
              | Some r => Some (slice (data t) (start r) (size r))     (* python slicing clips, as firstn/skipn do *)
              end
  end.

(* ---------------- all labels: the dictionaries _index / _data ---------------- *)
Definition store := list (nat * table).

Fixpoint sget (l : nat) (s : store) : option table :=
  match s with
  | [] => None
  | (k, t) :: r => if Nat.eqb k l then Some t else sget l r
  end.

Fixpoint sset (l : nat) (t : table) (s : store) : store :=
  match s with
  | [] => [(l, t)]
  | (k, u) :: r => if Nat.eqb k l then (k, t) :: r else (k, u) :: sset l t r
  end.

Definition by_obj (lab : nat) : bool := Nat.ltb lab 10.
Definition key_of (lab o d : nat) : who := if by_obj lab then ByObj o else ByData d.
Definition did_of (lab d : nat) : nat := if by_obj lab then 0 else d.

(* low level operations: one call of update_array_attribute *)
Inductive lop :=
| Put (lab o d : nat) (vs : list val)      (* values present, remove=False *)
| Del (lab o d : nat).                     (* remove=True, or the attribute is None *)

Definition lstep (s : store) (op : lop) : res store :=
  match op with
  | Put lab o d vs =>
      match update_array (sget lab s) (key_of lab o d) o (did_of lab d) (Some vs) with
      | Err e => Err e
      | Ok (Some t) => Ok (sset lab t s)
      | Ok None => Ok s
      end
  | Del lab o d =>
      match update_array (sget lab s) (key_of lab o d) o (did_of lab d) None with
      | Err e => Err e
      | Ok (Some t) => Ok (sset lab t s)
      | Ok None => Ok s
      end
  end.

Fixpoint lrun (ops : list lop) (s : store) : res store :=
  match ops with
  | [] => Ok s
  | op :: r => match lstep s op with Err e => Err e | Ok s' => lrun r s' end
  end.

Definition sfetch (s : store) (lab o d : nat) : option (list val) :=
  match sget lab s with None => None | Some t => fetch_values t (key_of lab o d) end.

(* ---------------- the invariant ---------------- *)
Fixpoint tiled_from (rs : list row) (s : nat) : Prop :=
  match rs with
  | [] => True
  | r :: rs' => start r = s /\ tiled_from rs' (s + size r)
  end.

Definition keyf (lab : nat) (r : row) : nat := if by_obj lab then oid r else did r.

(* no gap, no overlap (rows in list order are contiguous from 0), the rows cover the array, no duplicate key *)
Definition Tiled (lab : nat) (t : table) : Prop :=
  tiled_from (rows t) 0 /\ length (data t) = sum_sizes (rows t) /\ NoDup (map (keyf lab) (rows t)).

Definition AllTiled (s : store) : Prop := forall lab t, sget lab s = Some t -> Tiled lab t.

(* executable version, used by the correspondence files on the *observed* raw tables *)
Fixpoint tiled_fromb (rs : list row) (s : nat) : bool :=
  match rs with
  | [] => true
  | r :: rs' => Nat.eqb (start r) s && tiled_fromb rs' (s + size r)
  end.
Fixpoint nodupb (l : list nat) : bool :=
  match l with [] => true | x :: r => negb (existsb (Nat.eqb x) r) && nodupb r end.
Definition tiledb (lab : nat) (t : table) : bool :=
  tiled_fromb (rows t) 0 && Nat.eqb (length (data t)) (sum_sizes (rows t)) && nodupb (map (keyf lab) (rows t)).

(* ---------------- the abstract content of a table ---------------- *)
Notation entry := (nat * nat * list val)%type.     (* object id, data id, values *)

Fixpoint enc_rows (s : nat) (c : list entry) : list row :=
  match c with
  | [] => []
  | (o, d, vs) :: c' => mkrow s (length vs) o d :: enc_rows (s + length vs) c'
  end.
Definition enc_data (c : list entry) : list val := concat (map (fun e : entry => snd e) c).
Definition encode (c : list entry) : table := mktab (enc_rows 0 c) (enc_data c).
Definition decode (t : table) : list entry :=
  map (fun r => (oid r, did r, slice (data t) (start r) (size r))) (rows t).

(* the group-wide view (DrillholesGroupTable.index_by_drillhole / _depth_table_by_key):
   rows sorted by Start index, for each the slice of the array *)
Definition table_view (t : table) : list (nat * list val) :=
  map (fun r => (oid r, slice (data t) (start r) (size r))) (rows t).

(* ---------------- comparison helpers for the correspondence files ---------------- *)
Definition val_eqb : val -> val -> bool := option_eqb Z.eqb.
Definition row_eqb (a b : row) : bool :=
  Nat.eqb (start a) (start b) && Nat.eqb (size a) (size b) && Nat.eqb (oid a) (oid b) && Nat.eqb (did a) (did b).
Definition table_eqb (a b : table) : bool :=
  list_eqb row_eqb (rows a) (rows b) && list_eqb val_eqb (data a) (data b).
