(* Model of entity copies in geoh5py (property C12).  Definitions only; proofs live in Proofs/CopyProofs.v.

   Python transcribed
     Workspace.copy_to_parent      : harvest of the instance attributes (get_attributes: every key of vars(entity) read through
                                     its getter — the SAME Python objects, hence [meta] is a location, not a value) minus the
                                     omit list, overrides from kwargs, uid kept iff free in the target workspace, constructor.
     ObjectBase/Points/CellObject/GridObject.copy : optional vertex mask (shape check, vertices[mask], cells re-indexed and
                                     filtered by "all vertices kept"), children loop building children_map, per-child mask,
                                     then Workspace.copy_property_groups (Properties mapped through children_map, KeyError
                                     when a member was not copied; group uid kept iff free).
     Data.copy                     : values[mask] when the new parent holds fewer elements, else no-data filled.
     Group.copy                    : copy_to_parent, then child.copy(parent=new, mask=mask) for every child (recursion).
     Entity.metadata setter        : dict.update IN PLACE when the entity already holds a dict, else stores the argument
                                     object itself.

   A workspace is the tree below its root group; entities outside the tree are not modelled.  The Python heap is reduced
   to the one kind of mutable payload the copy shares: metadata dictionaries, kept in [heap : loc -> dictv].           *)
From GV Require Import Prelude.Base.

Definition uid := N.
Definition loc := N.

Inductive err := EMaskShape | ENoEntity | ERecursion | EKeyError | ETypeError | EBadParent | ENotCopied | EIndex.
Inductive res (A : Type) := Ok (a : A) | Err (e : err).
Arguments Ok {A} a.
Arguments Err {A} e.

Inductive kind := KGroup | KObject | KData.
(* how an object class treats a mask: GPlain ignores it (NoType, Label, GeoImage, Drillhole ...), GPoints filters
   vertices, GCells / GCurve filter vertices and cells, GGrid keeps the geometry and blanks data values.
   GCurve (Curve and its subclasses) additionally caches [parts], from which the cells are REGENERATED once the
   cells cache has been cleared (clear_cache=True). *)
Inductive geo := GPlain | GPoints | GCells | GCurve | GGrid.
Inductive assoc := AVertex | ACell | AObject.

Definition dictv := list (Z * Z).        (* a metadata dictionary: key token -> value token, insertion ordered *)

Record payload := {
  cls : Z;                       (* class token *)
  knd : kind;
  geok : geo;
  asc : assoc;                   (* association of a data entity *)
  attrs : list (Z * Z);          (* every other harvested attribute: name token -> value token *)
  verts : list Z;                (* one token per vertex (rows of the vertices array) *)
  cells : list (list nat);       (* vertex indices per cell; grids: [ncell] is used instead *)
  ncell : nat;                   (* grid objects: number of cells (centroids) *)
  vals : option (list (option Z));  (* data values; None inside = no-data *)
  meta : option loc;             (* the metadata dict object, if any *)
  nocopy : bool;                 (* CustomGroup: create_object_or_group finds no class, the copy is None *)
  ndv : option Z                 (* data: what a blanked value reads as (None = NaN; integer classes: their no-data value) *)
}.

Record pgroup := { pg_uid : uid; pg_tok : Z; pg_props : list uid }.
Record node := { nuid : uid; pl : payload; npgs : list pgroup }.
Inductive tree := T (n : node) (ch : list tree).

Definition root_node (t : tree) : node := match t with T n _ => n end.
Definition root_uid (t : tree) : uid := nuid (root_node t).
Definition children (t : tree) : list tree := match t with T _ ch => ch end.

Fixpoint uids (t : tree) : list uid := match t with T n ch => nuid n :: flat_map uids ch end.
Fixpoint pguids (t : tree) : list uid := match t with T n ch => map pg_uid (npgs n) ++ flat_map pguids ch end.
Fixpoint size (t : tree) : nat := match t with T _ ch => S (fold_right (fun c a => size c + a) 0 ch) end.
Fixpoint metas (t : tree) : list loc :=
  match t with T n ch => (match meta (pl n) with Some l => [l] | None => [] end) ++ flat_map metas ch end.

Definition memN (x : N) (l : list N) : bool := existsb (N.eqb x) l.

Fixpoint assocN {A} (k : N) (l : list (N * A)) : option A :=
  match l with [] => None | (k', v) :: r => if N.eqb k k' then Some v else assocN k r end.

(* ---------------------------------------------------------------- lookups in a tree *)
Fixpoint tfind (u : uid) (t : tree) : option tree :=
  match t with
  | T n ch => if N.eqb u (nuid n) then Some t
              else (fix go (l : list tree) : option tree :=
                      match l with [] => None | c :: r => match tfind u c with Some x => Some x | None => go r end end) ch
  end.

(* what an entity "is" for the frame statement: its own record and the uids of its children *)
Definition node_view (t : tree) : node * list uid := (root_node t, map root_uid (children t)).
Definition node_of (u : uid) (t : tree) : option (node * list uid) := option_map node_view (tfind u t).

(* ---------------------------------------------------------------- masks *)
Fixpoint compress {A} (m : list bool) (l : list A) : list A :=
  match m, l with
  | b :: m', x :: l' => if b then x :: compress m' l' else compress m' l'
  | _, _ => []
  end.

Fixpoint fillmask {A} (nd : option A) (m : list bool) (l : list (option A)) : list (option A) :=
  match m, l with
  | b :: m', x :: l' => (if b then x else nd) :: fillmask nd m' l'
  | _, _ => []
  end.

Definition count_true (m : list bool) : nat := length (filter (fun b => b) m).

(* new_id = ones_like(mask); new_id[mask] = arange(sum(mask))  — the new index of a kept vertex *)
Fixpoint new_ids_from (k : nat) (m : list bool) : list nat :=
  match m with [] => [] | b :: r => if b then k :: new_ids_from (S k) r else 1 :: new_ids_from k r end.
Definition new_ids (m : list bool) : list nat := new_ids_from 0 m.

Definition cell_kept (m : list bool) (c : list nat) : bool := forallb (fun v => nth v m false) c.
Definition cell_mask (m : list bool) (cs : list (list nat)) : list bool := map (cell_kept m) cs.
Definition remap_cells (m : list bool) (cs : list (list nat)) : list (list nat) :=
  map (map (fun v => nth v (new_ids m) 1)) (filter (cell_kept m) cs).

(* Data.copy: values[mask] when the new parent holds fewer elements than the data, else blanked in place *)
Definition mask_values (nd : option Z) (nparent : nat) (m : list bool) (v : list (option Z)) : list (option Z) :=
  if Nat.ltb nparent (length v) then compress m v else fillmask nd m v.

(* what a child copy receives *)
(* CCells cm : CellObject.copy(cell_mask=cm) without a vertex mask; CBoth m cm : both keywords given.  SIDE CONDITION: these two
   contexts are modelled for roots that are cell objects (GCells / GCurve) or groups; on other object classes the keyword is
   not generated (the model leaves such a payload unchanged). *)
Inductive cmask := CNone | CMask (m : list bool) | CFill (m : list bool) | CCells (cm : list bool) | CBoth (m cm : list bool).

(* context of one copy call: mask, sizes of the NEW parent (Data.copy reads parent.n_vertices / n_cells) *)
Record ctx := { cmk : cmask; pnv : option nat; pnc : option nat; with_children : bool; omit_meta : bool;
                over : list (Z * Z) }.

Definition plain_ctx : ctx := {| cmk := CNone; pnv := None; pnc := None; with_children := true; omit_meta := false; over := [] |}.

Definition set_payload (p : payload) (vs : list Z) (cs : list (list nat)) (vl : option (list (option Z))) : payload :=
  {| cls := cls p; knd := knd p; geok := geok p; asc := asc p; attrs := attrs p; verts := vs; cells := cs;
     ncell := ncell p; vals := vl; meta := meta p; nocopy := nocopy p; ndv := ndv p |}.

Definition set_meta (p : payload) (m : option loc) : payload :=
  {| cls := cls p; knd := knd p; geok := geok p; asc := asc p; attrs := attrs p; verts := verts p; cells := cells p;
     ncell := ncell p; vals := vals p; meta := m; nocopy := nocopy p; ndv := ndv p |}.

Definition set_attrs (p : payload) (a : list (Z * Z)) : payload :=
  {| cls := cls p; knd := knd p; geok := geok p; asc := asc p; attrs := a; verts := verts p; cells := cells p;
     ncell := ncell p; vals := vals p; meta := meta p; nocopy := nocopy p; ndv := ndv p |}.

Fixpoint override1 (k v : Z) (a : list (Z * Z)) : list (Z * Z) :=
  match a with [] => [] | (k', v') :: r => if Z.eqb k k' then (k', v) :: r else (k', v') :: override1 k v r end.
(* entity_kwargs.update((k, kwargs[k]) for k in entity_kwargs.keys() & kwargs.keys()) : only existing keys *)
Definition overrides (o : list (Z * Z)) (a : list (Z * Z)) : list (Z * Z) :=
  fold_left (fun acc kv => override1 (fst kv) (snd kv) acc) o a.

(* the payload handed to the constructor of the copy (before any child is copied) *)
Definition masked_payload (cx : ctx) (p : payload) : res payload :=
  match knd p with
  | KGroup => Ok p
  | KData =>
      match cmk cx, vals p with
      | CNone, _ => Ok p
      | _, None => Ok p
      | CMask m, Some v =>
          if negb (Nat.eqb (length m) (length v)) then Err EMaskShape else
          match (match asc p with ACell => pnc cx | _ => pnv cx end) with
          | None => Err ETypeError                 (* None < int *)
          | Some np => Ok (set_payload p (verts p) (cells p) (Some (mask_values (ndv p) np m v)))
          end
      | CFill m, Some v =>
          if Nat.eqb (length m) (length v) then Ok (set_payload p (verts p) (cells p) (Some (fillmask (ndv p) m v))) else Ok p
      | _, _ => Ok p
      end
  | KObject =>
      match cmk cx with
      | CMask m =>
          match geok p with
          | GPlain => Ok p
          | GPoints =>
              match verts p with
              | [] => Ok p                          (* vertices is None *)
              | _ => if Nat.eqb (length m) (length (verts p)) then Ok (set_payload p (compress m (verts p)) (cells p) (vals p))
                     else Err EMaskShape
              end
          | GCells | GCurve =>
              match verts p with
              | [] => Ok p
              | _ => if Nat.eqb (length m) (length (verts p))
                     then Ok (set_payload p (compress m (verts p)) (remap_cells m (cells p)) (vals p))
                     else Err EMaskShape
              end
          | GGrid => if Nat.eqb (length m) (ncell p) then Ok p else Err EMaskShape
          end
      | CCells cm =>
          (* new_cells = self.cells[cell_mask, :]; every vertex is kept *)
          match geok p with
          | GCells | GCurve =>
              (* a boolean index of another length: numpy raises IndexError *)
              if Nat.eqb (length cm) (length (cells p)) then Ok (set_payload p (verts p) (compress cm (cells p)) (vals p))
              else Err EIndex
          | _ => Ok p
          end
      | CBoth m cm =>
          (* the explicit cell mask replaces "all vertices kept": new_cells = new_id[self.cells][cell_mask, :] *)
          match geok p with
          | GCells | GCurve =>
              match verts p with
              | [] => Ok p
              | _ => if Nat.eqb (length m) (length (verts p))
                     then if Nat.eqb (length cm) (length (cells p))
                          then Ok (set_payload p (compress m (verts p))
                                     (map (map (fun v => nth v (new_ids m) 1)) (compress cm (cells p))) (vals p))
                          else Err EIndex
                     else Err EMaskShape
              end
          | _ => Ok p
          end
      | _ => Ok p
      end
  end.

(* the mask a child of [p] (source payload) receives, given the mask [p] itself received *)
Definition child_cmask (cx : ctx) (p : payload) (c : payload) : cmask :=
  match knd p with
  | KGroup =>                                         (* Group.copy: child.copy(mask=mask) — the vertex mask ONLY; a cell_mask
                                                         keyword given to a group stays with the group's constructor call *)
      match cmk cx with CBoth m _ => CMask m | CCells _ => CNone | x => x end
  | KData => CNone
  | KObject =>
      match cmk cx with
      | CMask m =>
          match geok p, knd c with
          | GPlain, _ => CNone
          | GPoints, KData => match asc c with AVertex | ACell => CMask m | AObject => CNone end
          | (GCells | GCurve), KData => match verts p with
                             | [] => match asc c with AVertex => CMask m | _ => CNone end
                             | _ => match asc c with AVertex => CMask m | ACell => CMask (cell_mask m (cells p)) | AObject => CNone end
                             end
          | GGrid, KData => CFill m
          | _, _ => CNone
          end
      | CCells cm =>
          match geok p, knd c with
          | (GCells | GCurve), KData => match asc c with ACell => CMask cm | _ => CNone end
          | _, _ => CNone
          end
      | CBoth m cm =>
          match geok p, knd c with
          | (GCells | GCurve), KData => match asc c with AVertex => CMask m | ACell => CMask cm | AObject => CNone end
          | _, _ => CNone
          end
      | _ => CNone
      end
  end.

Definition nverts_of (p : payload) : option nat :=
  match knd p, geok p with
  | KObject, (GPoints | GCells | GCurve) => match verts p with [] => None | v => Some (length v) end
  | _, _ => None
  end.
Definition ncells_of (p : payload) : option nat :=
  match knd p, geok p with
  | KObject, (GCells | GCurve) => match verts p with [] => None | _ => Some (length (cells p)) end
  | KObject, GGrid => Some (ncell p)
  | _, _ => None
  end.

(* ---------------------------------------------------------------- identifiers *)
Record cst := { used : list uid; usedpg : list uid; nxt : N }.

(* "Assign the same uid if possible": kept iff no entity of the target workspace has it *)
Definition alloc (u : uid) (st : cst) : uid * cst :=
  if memN u (used st)
  then (nxt st, {| used := nxt st :: used st; usedpg := usedpg st; nxt := N.succ (nxt st) |})
  else (u, {| used := u :: used st; usedpg := usedpg st; nxt := nxt st |}).

Definition alloc_pg (u : uid) (st : cst) : uid * cst :=
  if memN u (usedpg st)
  then (nxt st, {| used := used st; usedpg := nxt st :: usedpg st; nxt := N.succ (nxt st) |})
  else (u, {| used := used st; usedpg := u :: usedpg st; nxt := nxt st |}).

Fixpoint map_props (cmap : list (uid * uid)) (l : list uid) : res (list uid) :=
  match l with
  | [] => Ok []
  | u :: r => match assocN u cmap with
              | None => Err EKeyError                     (* data_map[uid] *)
              | Some u' => match map_props cmap r with Ok r' => Ok (u' :: r') | Err e => Err e end
              end
  end.

Fixpoint copy_pgs (cmap : list (uid * uid)) (l : list pgroup) (st : cst) : res (list pgroup * cst) :=
  match l with
  | [] => Ok ([], st)
  | g :: r =>
      match map_props cmap (pg_props g) with
      | Err e => Err e
      | Ok props =>
          let '(u, st1) := alloc_pg (pg_uid g) st in
          match copy_pgs cmap r st1 with
          | Err e => Err e
          | Ok (r', st2) => Ok ({| pg_uid := u; pg_tok := pg_tok g; pg_props := props |} :: r', st2)
          end
      end
  end.

(* GridObject.copy copies Data children only *)
Definition copied_child (p : payload) (c : tree) : bool :=
  if nocopy (pl (root_node c)) then false else       (* child.copy(...) returned None: silently skipped *)
  match knd p, geok p, knd (pl (root_node c)) with
  | KObject, GGrid, KData => true
  | KObject, GGrid, _ => false
  | _, _, _ => true
  end.

(* the uids of the entities of a source subtree that are copied (pre-order) *)
Fixpoint copied_uids (with_ch : bool) (t : tree) : list uid :=
  match t with
  | T n ch => nuid n :: (if with_ch then
                           (fix go (l : list tree) : list uid :=
                              match l with
                              | [] => []
                              | c :: r => if copied_child (pl n) c then copied_uids true c ++ go r else go r
                              end) ch
                         else [])
  end.

(* state-threading map over the children *)
Section MapM.
  Variable keep : tree -> bool.
  Variable f : tree -> cst -> res (tree * cst).
  Fixpoint mapM_st (l : list tree) (st : cst) : res (list tree * cst) :=
    match l with
    | [] => Ok ([], st)
    | c :: r => if keep c then
                  match f c st with
                  | Err e => Err e
                  | Ok (c', st1) => match mapM_st r st1 with
                                    | Err e => Err e
                                    | Ok (r', st2) => Ok (c' :: r', st2)
                                    end
                  end
                else mapM_st r st
    end.
End MapM.

(* sizes of the NEW parent as Data.copy reads them: an object that had vertices keeps a (possibly empty) vertex array *)
Definition nverts_after (p p' : payload) : option nat :=
  match nverts_of p with None => None | Some _ => Some (length (verts p')) end.
Definition ncells_after (p p' : payload) : option nat :=
  match knd p, geok p with
  | KObject, GGrid => Some (ncell p)
  | _, _ => match ncells_of p with None => None | Some _ => Some (length (cells p')) end
  end.

Definition child_ctx (cx : ctx) (p p' : payload) (c : tree) : ctx :=
  {| cmk := child_cmask cx p (pl (root_node c)); pnv := nverts_after p p'; pnc := ncells_after p p';
     with_children := true; omit_meta := false; over := [] |}.

Fixpoint copy_tree (t : tree) (cx : ctx) (st : cst) {struct t} : res (tree * cst) :=
  match t with
  | T n ch =>
      match masked_payload cx (pl n) with
      | Err e => Err e
      | Ok p1 =>
          let p' := set_attrs (set_meta p1 (if omit_meta cx then None else meta p1)) (overrides (over cx) (attrs p1)) in
          let u := fst (alloc (nuid n) st) in
          let st1 := snd (alloc (nuid n) st) in
          if negb (with_children cx) then Ok (T {| nuid := u; pl := p'; npgs := [] |} [], st1) else
          match mapM_st (copied_child (pl n)) (fun c s => copy_tree c (child_ctx cx (pl n) p' c) s) ch st1 with
          | Err e => Err e
          | Ok (ch', st2) =>
              let cmap := combine (map root_uid (filter (copied_child (pl n)) ch)) (map root_uid ch') in
              match copy_pgs cmap (npgs n) st2 with
              | Err e => Err e
              | Ok (pgs', st3) => Ok (T {| nuid := u; pl := p'; npgs := pgs' |} ch', st3)
              end
          end
      end
  end.

(* ---------------------------------------------------------------- the world: two workspaces and the dict heap *)
Record world := { wsA : tree; wsB : tree; heap : list (loc * dictv); wnext : N }.
Definition ws (w : world) (b : bool) : tree := if b then wsB w else wsA w.
Definition set_ws (w : world) (b : bool) (t : tree) (nx : N) : world :=
  if b then {| wsA := wsA w; wsB := t; heap := heap w; wnext := nx |}
  else {| wsA := t; wsB := wsB w; heap := heap w; wnext := nx |}.

(* parent.add_children([new]) : appended to the parent's children *)
Fixpoint insert_child (p : uid) (x : tree) (t : tree) : tree :=
  match t with
  | T n ch => if N.eqb p (nuid n) then T n (ch ++ [x]) else T n (map (insert_child p x) ch)
  end.

Record opts := { o_children : bool; o_mask : option (list bool); o_omit_meta : bool; o_over : list (Z * Z); o_clear : bool;
                 o_cmask : option (list bool) }.

(* ---- clear_cache=True on a Curve: copy_to_parent harvested [parts] (the getter caches it), clear_array_attributes
   then drops the cells cache, and the next read of [cells] rebuilds them from the cached parts (and stores them). *)
Fixpoint set_nth (i : nat) (v : nat) (l : list nat) : list nat :=
  match l, i with [], _ => [] | _ :: r, O => v :: r | x :: r, S j => x :: set_nth j v r end.

(* parts = zeros(n); count = 0; for ind in 1..: if cells[ind,0] != cells[ind-1,1]: count += 1; parts[cells[ind,:]] = count *)
Fixpoint parts_loop (prev : list nat) (cs : list (list nat)) (count : nat) (parts : list nat) : list nat :=
  match cs with
  | [] => parts
  | c :: r =>
      let count' := if Nat.eqb (nth 0 c 0) (nth 1 prev 0) then count else S count in
      parts_loop c r count' (set_nth (nth 1 c 0) count' (set_nth (nth 0 c 0) count' parts))
  end.
Definition parts_of (n : nat) (cs : list (list nat)) : list nat :=
  match cs with [] => repeat 0 n | c :: r => parts_loop c r 0 (repeat 0 n) end.

Fixpoint indices_of (pid : nat) (parts : list nat) (i : nat) : list nat :=
  match parts with [] => [] | x :: r => if Nat.eqb x pid then i :: indices_of pid r (S i) else indices_of pid r (S i) end.
Fixpoint chain (l : list nat) : list (list nat) :=
  match l with a :: ((b :: _) as r) => [a; b] :: chain r | _ => [] end.
(* cells from parts: for every part id in increasing order, consecutive member vertices joined *)
Definition regen_cells (parts : list nat) : list (list nat) :=
  flat_map (fun pid => chain (indices_of pid parts 0)) (seq 0 (S (fold_right Nat.max 0 parts))).

Definition clear_payload (p : payload) : payload :=
  match knd p, geok p, verts p with
  | KObject, GCurve, (_ :: _) => set_payload p (verts p) (regen_cells (parts_of (length (verts p)) (cells p))) (vals p)
  | _, _, _ => p
  end.

(* cell data of a curve whose cells were rebuilt: the values are re-read with the new number of cells (NumericData.format_length
   pads with the no-data value when there are more cells than stored values) *)
Definition pad_values (nd : option Z) (n : nat) (v : list (option Z)) : list (option Z) :=
  v ++ repeat nd (n - length v).

Definition clear_child (ncells_new : nat) (c : tree) : tree :=
  match c with
  | T n ch =>
      match knd (pl n), asc (pl n), vals (pl n) with
      | KData, ACell, Some v => T {| nuid := nuid n; pl := set_payload (pl n) (verts (pl n)) (cells (pl n)) (Some (pad_values (ndv (pl n)) ncells_new v));
                                    npgs := npgs n |} ch
      | _, _, _ => c
      end
  end.

(* the entities of the source subtree that went through copy_to_parent(..., clear_cache=True):
   an object root, or the objects below a group (Group.copy does not clear the group itself) *)
Fixpoint clear_src (kids : bool) (t : tree) : tree :=
  match t with
  | T n ch =>
      let p' := clear_payload (pl n) in
      T {| nuid := nuid n; pl := p'; npgs := npgs n |}
        (match knd (pl n), geok (pl n) with
         | KGroup, _ => map (clear_src true) ch
         | KObject, GCurve => if kids then map (clear_child (length (cells p'))) ch else ch   (* the value caches of the children are dropped only when the children are copied *)
         | _, _ => ch
         end)
  end.

Fixpoint replace_tree (u : uid) (x : tree) (t : tree) : tree :=
  match t with T n ch => if N.eqb u (nuid n) then x else T n (map (replace_tree u x) ch) end.

Definition top_ctx (o : opts) (tp : payload) : ctx :=
  {| cmk := match o_mask o, o_cmask o with
            | Some m, None => CMask m | Some m, Some cm => CBoth m cm | None, Some cm => CCells cm | None, None => CNone end;
     pnv := nverts_of tp; pnc := ncells_of tp; with_children := o_children o; omit_meta := o_omit_meta o; over := o_over o |}.

(* objects and groups are copied under a group (or the root), data under an object *)
Definition parent_ok (ks kp : kind) : bool :=
  match ks, kp with
  | KData, KObject => true
  | KData, _ => false
  | _, KData => false
  | _, _ => true
  end.

(* does clear_cache reach an entity that went through copy_to_parent(..., clear_cache=True)? *)
Definition clears (o : opts) (t : tree) : bool :=
  o_clear o && (o_children o || negb (match knd (pl (root_node t)) with KGroup => true | _ => false end)).

(* entity.copy(parent=p, ...) : source (sws, u), target parent (tws, p) *)
Definition copy (w : world) (sws : bool) (u : uid) (tws : bool) (p : uid) (o : opts)
  : res (world * uid * list (uid * uid)) :=
  match tfind u (ws w sws), tfind p (ws w tws) with
  | Some t, Some tp =>
      if Bool.eqb sws tws && memN p (uids t) then Err ERecursion else
      if nocopy (pl (root_node t)) then Err ENotCopied else
      if negb (parent_ok (knd (pl (root_node t))) (knd (pl (root_node tp)))) then Err EBadParent else
      let st0 := {| used := uids (ws w tws); usedpg := pguids (ws w tws); nxt := wnext w |} in
      match copy_tree t (top_ctx o (pl (root_node tp))) st0 with
      | Err e => Err e
      | Ok (t', st') =>
          let w1 := set_ws w tws (insert_child p t' (ws w tws)) (nxt st') in
          let w2 := if clears o t then set_ws w1 sws (replace_tree u (clear_src (o_children o) t) (ws w1 sws)) (wnext w1) else w1 in
          Ok (w2, root_uid t', combine (copied_uids (o_children o) t) (uids t'))
      end
  | _, _ => Err ENoEntity
  end.

(* ---------------------------------------------------------------- edits through setters *)
Inductive edit :=
| SetAttr (k v : Z)                      (* a scalar setter: name, visible, public ... *)
| SetVerts (v : list Z)
| SetVals (v : list (option Z))
| SetMeta (d : dictv).                   (* entity.metadata = {...} *)

Fixpoint update_node (u : uid) (f : node -> node) (t : tree) : tree :=
  match t with T n ch => if N.eqb u (nuid n) then T (f n) ch else T n (map (update_node u f) ch) end.

(* dictionaries are kept sorted by key token (the driver sorts its observation the same way) *)
Fixpoint dict_set (k v : Z) (d : dictv) : dictv :=
  match d with
  | [] => [(k, v)]
  | (k', v') :: r => if Z.eqb k k' then (k', v) :: r else if Z.ltb k k' then (k, v) :: (k', v') :: r else (k', v') :: dict_set k v r
  end.
Definition dict_update (d new : dictv) : dictv := fold_left (fun acc kv => dict_set (fst kv) (snd kv) acc) new d.

Fixpoint heap_set (l : loc) (d : dictv) (h : list (loc * dictv)) : list (loc * dictv) :=
  match h with [] => [(l, d)] | (l', d') :: r => if N.eqb l l' then (l', d) :: r else (l', d') :: heap_set l d r end.

Definition with_pl (f : payload -> payload) (n : node) : node := {| nuid := nuid n; pl := f (pl n); npgs := npgs n |}.

Definition apply_edit (w : world) (b : bool) (u : uid) (e : edit) : res world :=
  match tfind u (ws w b) with
  | None => Err ENoEntity
  | Some t =>
      let p := pl (root_node t) in
      match e with
      | SetAttr k v => Ok (set_ws w b (update_node u (with_pl (fun q => set_attrs q (override1 k v (attrs q)))) (ws w b)) (wnext w))
      | SetVerts v => Ok (set_ws w b (update_node u (with_pl (fun q => set_payload q v (cells q) (vals q))) (ws w b)) (wnext w))
      | SetVals v => Ok (set_ws w b (update_node u (with_pl (fun q => set_payload q (verts q) (cells q) (Some v))) (ws w b)) (wnext w))
      | SetMeta d =>
          match meta p with
          | Some l =>                                      (* self._metadata.update(value): in place *)
              let old := match assocN l (heap w) with Some x => x | None => [] end in
              Ok {| wsA := wsA w; wsB := wsB w; heap := heap_set l (dict_update old d) (heap w); wnext := wnext w |}
          | None =>                                        (* self._metadata = value: a new dict object *)
              let l := wnext w in
              let w1 := set_ws w b (update_node u (with_pl (fun q => set_meta q (Some l))) (ws w b)) (N.succ l) in
              Ok {| wsA := wsA w1; wsB := wsB w1; heap := (l, d) :: heap w; wnext := wnext w1 |}
          end
      end
  end.

Fixpoint apply_edits (w : world) (b : bool) (l : list (uid * edit)) : res world :=
  match l with
  | [] => Ok w
  | (u, e) :: r => match apply_edit w b u e with Err x => Err x | Ok w1 => apply_edits w1 b r end
  end.

(* ---------------------------------------------------------------- deep views (metadata dereferenced) *)
Definition deref (h : list (loc * dictv)) (m : option loc) : option dictv :=
  match m with None => None | Some l => match assocN l h with Some d => Some d | None => Some [] end end.

(* everything an observer reads from one entity *)
Definition deep_view (h : list (loc * dictv)) (t : tree) : node * list uid * option dictv :=
  (root_node t, map root_uid (children t), deref h (meta (pl (root_node t)))).
Definition deep_of (w : world) (b : bool) (u : uid) := option_map (deep_view (heap w)) (tfind u (ws w b)).

(* ---------------------------------------------------------------- uid maps / relabelling (statement of the isomorphism) *)
Definition look (r : list (uid * uid)) (u : uid) : uid := match assocN u r with Some v => v | None => u end.

Definition relabel_pg (f : uid -> uid) (g : pgroup) : pgroup :=
  {| pg_uid := 0%N; pg_tok := pg_tok g; pg_props := map f (pg_props g) |}.
Definition erase_pg (g : pgroup) : pgroup := {| pg_uid := 0%N; pg_tok := pg_tok g; pg_props := pg_props g |}.

(* the same tree with every entity uid and every property-group member mapped through f (group uids erased) *)
Fixpoint relabel (f : uid -> uid) (t : tree) : tree :=
  match t with T n ch => T {| nuid := f (nuid n); pl := pl n; npgs := map (relabel_pg f) (npgs n) |} (map (relabel f) ch) end.
Fixpoint erase (t : tree) : tree :=
  match t with T n ch => T {| nuid := nuid n; pl := pl n; npgs := map erase_pg (npgs n) |} (map erase ch) end.

(* the functional specification of a (masked) copy: same tree, payloads restricted by the mask each node receives *)
Fixpoint spec_tree (t : tree) (cx : ctx) : res tree :=
  match t with
  | T n ch =>
      match masked_payload cx (pl n) with
      | Err e => Err e
      | Ok p1 =>
          let p' := set_attrs (set_meta p1 (if omit_meta cx then None else meta p1)) (overrides (over cx) (attrs p1)) in
          if negb (with_children cx) then Ok (T {| nuid := nuid n; pl := p'; npgs := [] |} []) else
          match (fix go (l : list tree) : res (list tree) :=
                   match l with
                   | [] => Ok []
                   | c :: r => if copied_child (pl n) c then
                                 match spec_tree c (child_ctx cx (pl n) p' c) with
                                 | Err e => Err e
                                 | Ok c' => match go r with Err e => Err e | Ok r' => Ok (c' :: r') end
                                 end
                               else go r
                   end) ch with
          | Err e => Err e
          | Ok ch' => Ok (T {| nuid := nuid n; pl := p'; npgs := npgs n |} ch')
          end
      end
  end.

(* property-group members are children of their owner *)
Fixpoint pgs_wf (t : tree) : Prop :=
  match t with T n ch =>
    Forall (fun g => incl (pg_props g) (map root_uid (filter (copied_child (pl n)) ch))) (npgs n)
    /\ (fix all (l : list tree) : Prop := match l with [] => True | c :: r => pgs_wf c /\ all r end) ch
  end.

(* ---------------------------------------------------------------- canonical observation (what the driver records) *)
Inductive cuid := COld (u : N) | CNew.
Inductive pref := PChild (i : nat) | PUid (c : cuid).
Inductive ctree :=
  C (cl : Z) (id : cuid) (at_ : list (Z * Z)) (vs : list Z) (cs : list (list nat)) (vl : option (list (option Z)))
    (md : option dictv) (pg : list (Z * cuid * list pref)) (ch : list ctree).

Definition canon_uid (olds : list uid) (u : uid) : cuid := if memN u olds then COld u else CNew.

Fixpoint index_of (u : uid) (l : list uid) (i : nat) : option nat :=
  match l with [] => None | x :: r => if N.eqb u x then Some i else index_of u r (S i) end.

Definition canon_pref (olds : list uid) (kids : list uid) (u : uid) : pref :=
  match index_of u kids 0 with Some i => PChild i | None => PUid (canon_uid olds u) end.

Fixpoint canon (olds : list uid) (h : list (loc * dictv)) (t : tree) : ctree :=
  match t with
  | T n ch =>
      let p := pl n in
      C (cls p) (canon_uid olds (nuid n)) (attrs p) (verts p) (cells p) (vals p) (deref h (meta p))
        (map (fun g => (pg_tok g, canon_uid olds (pg_uid g), map (canon_pref olds (map root_uid ch)) (pg_props g))) (npgs n))
        (map (canon olds h) ch)
  end.

(* decidable equality of canonical trees *)
Definition cuid_eqb (a b : cuid) : bool :=
  match a, b with COld x, COld y => N.eqb x y | CNew, CNew => true | _, _ => false end.
Definition pref_eqb (a b : pref) : bool :=
  match a, b with PChild i, PChild j => Nat.eqb i j | PUid x, PUid y => cuid_eqb x y | _, _ => false end.
Definition zz_eqb (a b : Z * Z) : bool := Z.eqb (fst a) (fst b) && Z.eqb (snd a) (snd b).
Definition dict_eqb : dictv -> dictv -> bool := list_eqb zz_eqb.
Definition vals_eqb : list (option Z) -> list (option Z) -> bool := list_eqb (option_eqb Z.eqb).
Definition pgc_eqb (a b : Z * cuid * list pref) : bool :=
  let '(t1, u1, p1) := a in let '(t2, u2, p2) := b in Z.eqb t1 t2 && cuid_eqb u1 u2 && list_eqb pref_eqb p1 p2.

Fixpoint ctree_eqb (a b : ctree) : bool :=
  match a, b with
  | C c1 i1 a1 v1 s1 l1 m1 g1 h1, C c2 i2 a2 v2 s2 l2 m2 g2 h2 =>
      Z.eqb c1 c2 && cuid_eqb i1 i2 && list_eqb zz_eqb a1 a2 && list_eqb Z.eqb v1 v2
      && list_eqb (list_eqb Nat.eqb) s1 s2 && option_eqb vals_eqb l1 l2 && option_eqb dict_eqb m1 m2
      && list_eqb pgc_eqb g1 g2
      && (fix go (x y : list ctree) : bool :=
            match x, y with
            | [], [] => true
            | p :: x', q :: y' => ctree_eqb p q && go x' y'
            | _, _ => false
            end) h1 h2
  end.

(* ---------------------------------------------------------------- one correspondence case *)
Inductive outcome := OErr (e : err) | ODone.
Definition err_eqb (a b : err) : bool :=
  match a, b with
  | EMaskShape, EMaskShape | ENoEntity, ENoEntity | ERecursion, ERecursion | EKeyError, EKeyError
  | ETypeError, ETypeError | EBadParent, EBadParent | ENotCopied, ENotCopied | EIndex, EIndex => true
  | _, _ => false
  end.

(* edits are addressed by a path of child indices below the copy's root *)
Fixpoint at_path (t : tree) (p : list nat) : option tree :=
  match p with [] => Some t | i :: r => match nth_error (children t) i with Some c => at_path c r | None => None end end.

Fixpoint resolve_edits (t : tree) (l : list (list nat * edit)) : option (list (uid * edit)) :=
  match l with
  | [] => Some []
  | (p, e) :: r => match at_path t p, resolve_edits t r with
                   | Some x, Some r' => Some ((root_uid x, e) :: r')
                   | _, _ => None
                   end
  end.

(* compact constructors for the generated case files *)
Definition mkp := Build_payload.
Definition mkn (u : N) (p : payload) (g : list pgroup) : node := Build_node u p g.
Definition mkg (u : N) (t : Z) (ps : list N) : pgroup := Build_pgroup u t ps.

(* the model run on a case yields exactly the observation:
   copy subtree, source subtree right after the copy, number of children of the target parent, source and copy after the
   edits.  An observation given as None stands for "identical to" the source before the copy (obs_src_after), the source
   after the copy (obs_src_edited) and the copy before the edits (obs_copy_edited) respectively — the driver passes None
   only when its two canonical snapshots are equal. *)
Definition check_case (w : world) (sws : bool) (u : uid) (tws : bool) (p : uid) (o : opts)
           (edits : list (list nat * edit))
           (obs_err : option err) (obs_copy : ctree) (obs_src_after obs_src_edited obs_copy_edited : option ctree)
           (obs_parent_kids : nat) : bool :=
  let olds := uids (wsA w) ++ uids (wsB w) ++ pguids (wsA w) ++ pguids (wsB w) in
  match copy w sws u tws p o, obs_err with
  | Err e, Some e' => err_eqb e e'
  | Ok (w1, nu, _), None =>
      match tfind u (ws w sws), tfind nu (ws w1 tws), tfind u (ws w1 sws), tfind p (ws w1 tws) with
      | Some tsrc0, Some tc, Some tsrc, Some tpar =>
          let exp_after := match obs_src_after with Some c => c | None => canon olds (heap w) tsrc0 end in
          let exp_edited := match obs_src_edited with Some c => c | None => exp_after end in
          let exp_cedited := match obs_copy_edited with Some c => c | None => obs_copy end in
          ctree_eqb (canon olds (heap w1) tc) obs_copy
          && ctree_eqb (canon olds (heap w1) tsrc) exp_after
          && Nat.eqb (length (children tpar)) obs_parent_kids
          && match resolve_edits tc edits with
             | None => false
             | Some es =>
                 match apply_edits w1 tws es with
                 | Err _ => false
                 | Ok w2 =>
                     match tfind u (ws w2 sws), tfind nu (ws w2 tws) with
                     | Some ts2, Some tc2 => ctree_eqb (canon olds (heap w2) ts2) exp_edited
                                            && ctree_eqb (canon olds (heap w2) tc2) exp_cedited
                     | _, _ => false
                     end
                 end
             end
      | _, _, _, _ => false
      end
  | _, _ => false
  end.
