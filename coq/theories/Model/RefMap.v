(* Model of geoh5py/data/reference_value_map.py (ReferenceValueMap: constructor = `map` setter, __setitem__,
   _validate_key_value), H5Writer.write_value_map and H5Reader.fetch_value_map + the constructor run again by the
   loader (DataType(value_map=mapping)).  Property C08.  Definitions only; proofs in Proofs/RefMapProofs.v.          *)
From GV Require Import Prelude.Base Model.Codec.

Local Open Scope Z_scope.

Inductive key := KInt (z : Z) | KBad.          (* int / np.integer / bool (by value) | any other key type *)
Inductive lab := LStr (s : str) | LBad.        (* str | anything else *)
Definition dict := list (key * lab).           (* the caller's dict: insertion order, keys pairwise distinct *)
Definition rmap := list (Z * str).             (* ReferenceValueMap._map after validation *)

Definition s_Unknown : str := [85; 110; 107; 110; 111; 119; 110]%N.
Definition s_False : str := [70; 97; 108; 115; 101]%N.
Definition s_True : str := [84; 114; 117; 101]%N.
Definition BOOL_MAP : rmap := [(0, s_False); (1, s_True)].        (* BOOLEAN_VALUE_MAP *)

Definition KEY_MAX : Z := 4294967295.                              (* np.iinfo(np.uint32).max *)

Fixpoint lookup (k : Z) (m : rmap) : option str :=
  match m with
  | [] => None
  | (k', s) :: r => if k =? k' then Some s else lookup k r
  end.

(* dict.__setitem__: replace in place, else append *)
Fixpoint set (k : Z) (s : str) (m : rmap) : rmap :=
  match m with
  | [] => [(k, s)]
  | (k', s') :: r => if k =? k' then (k, s) :: r else (k', s') :: set k s r
  end.

Definition mem (k : Z) (m : rmap) : bool := match lookup k m with Some _ => true | None => false end.

(* `self.map == BOOLEAN_VALUE_MAP` (dict equality; keys of m are distinct) *)
Definition is_bool_map (m : rmap) : bool :=
  (length m =? 2)%nat
  && option_eqb lN_eqb (lookup 0 m) (Some s_False)
  && option_eqb lN_eqb (lookup 1 m) (Some s_True).

Definition to_entry (p : key * lab) : option (Z * str) :=
  match p with (KInt z, LStr s) => Some (z, s) | _ => None end.

Definition is_bool_dict (d : dict) : bool :=
  match all_some (map to_entry d) with Some m => is_bool_map m | None => false end.

(* _validate_key_value *)
Definition validate (w : ver) (k : key) (v : lab) : res (Z * str) :=
  match k with
  | KBad => Err KeyErr
  | KInt z =>
      if z <? 0 then Err KeyErr
      else if (match w with Repaired => KEY_MAX <? z | Old => false end) then Err KeyErr
      else match v with
           | LBad => Err TypeErr
           | LStr s => if (z =? 0) && negb (lN_eqb s s_Unknown) then Err ValueErr else Ok (z, s)
           end
  end.

Fixpoint validate_all (w : ver) (d : dict) : res rmap :=
  match d with
  | [] => Ok []
  | (k, v) :: r => bind (validate w k v) (fun e => bind (validate_all w r) (fun m => Ok (e :: m)))
  end.

(* ReferenceValueMap.__init__ / map setter *)
Definition mk (w : ver) (d : dict) : res rmap :=
  if is_bool_dict d then
    match all_some (map to_entry d) with Some m => Ok m | None => Err TypeErr (* impossible *) end
  else
    bind (validate_all w d) (fun m => Ok (if mem 0 m then m else m ++ [(0, s_Unknown)])).

(* __setitem__ *)
Definition setitem (w : ver) (m : rmap) (k : key) (v : lab) : res rmap :=
  if is_bool_map m then Err AssertErr
  else bind (validate w k v) (fun e => Ok (set (fst e) (snd e) m)).

(* a caller that keeps going after a refused assignment: the map is unchanged by a refused one *)
Fixpoint apply_ops (w : ver) (m : rmap) (ops : dict) : rmap * list (option err) :=
  match ops with
  | [] => (m, [])
  | (k, v) :: r =>
      match setitem w m k v with
      | Ok m' => let (mf, es) := apply_ops w m' r in (mf, None :: es)
      | Err e => let (mf, es) := apply_ops w m r in (mf, Some e :: es)
      end
  end.

Definition of_rmap (m : rmap) : dict := map (fun p => (KInt (fst p), LStr (snd p))) m.

Section File.
  Variable enc : str -> option bytes.
  Variable dec : bytes -> option str.

  (* write_value_map: np.array(list(map.items()), dtype=[("Key","<u4"),("Value",vlen str)]) then create_dataset.
     The Key column truncates to 32 bits (Python ints beyond 64 bits overflow the C conversion). *)
  Definition key_col (k : Z) : res Z := if 2 ^ 64 <=? k then Err OverflowErr else Ok (k mod 2 ^ 32).

  Fixpoint keys_col (m : rmap) : res (list Z) :=
    match m with
    | [] => Ok []
    | (k, _) :: r => bind (key_col k) (fun k' => bind (keys_col r) (fun ks => Ok (k' :: ks)))
    end.

  Definition write_map (m : rmap) : res (list (Z * bytes)) :=
    bind (keys_col m) (fun ks =>
    bind (enc_all enc (map snd m)) (fun bs => Ok (combine ks bs))).

  (* fetch_value_map: rows in file order into a dict (a later row with the same key overwrites) *)
  Fixpoint fetch_rows (rows : list (Z * bytes)) (acc : rmap) : res rmap :=
    match rows with
    | [] => Ok acc
    | (k, b) :: r => match dec b with
                     | Some s => fetch_rows r (set k s acc)
                     | None => Err UnicodeDecodeErr
                     end
    end.

  (* loading the DataType: ReferenceValueMap(mapping) once more *)
  Definition reopen_map (w : ver) (rows : list (Z * bytes)) : res rmap :=
    bind (fetch_rows rows []) (fun m => mk w (of_rmap m)).

  Inductive moutcome :=
  | MOMkErr (e : err)
  | MOWriteErr (m : rmap) (es : list (option err)) (e : err)
  | MOReadErr (m : rmap) (es : list (option err)) (rows : list (Z * bytes)) (e : err)
  | MODone (m : rmap) (es : list (option err)) (rows : list (Z * bytes)) (m' : rmap).

  (* one case: construct, apply the assignments, store, re-open *)
  Definition run_map (w : ver) (d ops : dict) : moutcome :=
    match mk w d with
    | Err e => MOMkErr e
    | Ok m0 =>
        let (m, es) := apply_ops w m0 ops in
        match write_map m with
        | Err e => MOWriteErr m es e
        | Ok rows => match reopen_map w rows with
                     | Err e => MOReadErr m es rows e
                     | Ok m' => MODone m es rows m'
                     end
        end
    end.
End File.

(* ------------------------------------------------------------------ comparison for the case files *)
Definition entry_eqb (a b : Z * str) : bool := Z.eqb (fst a) (fst b) && lN_eqb (snd a) (snd b).
Definition rmap_eqb : rmap -> rmap -> bool := list_eqb entry_eqb.
Definition rows_eqb : list (Z * bytes) -> list (Z * bytes) -> bool := list_eqb entry_eqb.
Definition errs_eqb : list (option err) -> list (option err) -> bool := list_eqb (option_eqb err_eqb).

Definition moutcome_eqb (a b : moutcome) : bool :=
  match a, b with
  | MOMkErr e, MOMkErr f => err_eqb e f
  | MOWriteErr m es e, MOWriteErr m2 es2 f => rmap_eqb m m2 && errs_eqb es es2 && err_eqb e f
  | MOReadErr m es r e, MOReadErr m2 es2 r2 f => rmap_eqb m m2 && errs_eqb es es2 && rows_eqb r r2 && err_eqb e f
  | MODone m es r m', MODone m2 es2 r2 m2' => rmap_eqb m m2 && errs_eqb es es2 && rows_eqb r r2 && rmap_eqb m' m2'
  | _, _ => false
  end.

Definition agree_map (w : ver) (d ops : dict) (o : moutcome) : bool :=
  moutcome_eqb (run_map utf8_enc utf8_dec w d ops) o.

(* ------------------------------------------------------------------ a ReferencedData as a whole *)
(* The int32 values and the value map of the data type are stored side by side ('Data' dataset / 'Value map' dataset of
   the type).  Neither the writer nor the reader looks one up in the other: a value without a key in the map is stored and
   returned as it is, no label is made up for it and no key is added. *)
Definition run_ref (w : ver) (d ops : dict) (a : assoc) (n : nat) (x : arr) : moutcome * outcome :=
  (run_map utf8_enc utf8_dec w d ops, run_num w CReferenced a n x).

Definition agree_ref (w : ver) (d ops : dict) (a : assoc) (n : nat) (x : arr) (mo : moutcome) (no : outcome) : bool :=
  moutcome_eqb (fst (run_ref w d ops a n x)) mo && outcome_eqb (snd (run_ref w d ops a n x)) no.
