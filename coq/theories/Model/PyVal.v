(* PyVal — the Python value universe and the handful of Python facts the PyLite translation relies on
   (properties C14, C15).  Definitions only; lemmas live in Proofs/PyValProofs.v.

   This file IS a model of (a fragment of) CPython and belongs to the trusted base; every primitive below is also
   exercised by the correspondence check (tools/props/c14.py, case kind "fn" with the pseudo-module "prim").

   pv        : None / bool / int / float (finite dyadic, +-inf, nan) / str / uuid.UUID / entity token /
               workspace token / type object / list / tuple / dict (insertion ordered association list)
   res       : a computation either returns or raises an exception class
   The primitives follow CPython 3.12:  bool is a subclass of int (isinstance, ==), 1 == 1.0 == True,
   dict lookup raises KeyError, iteration over a dict gives its keys, `in` on list/tuple/dict/str. *)
From Coq Require Import String Ascii.
From GV Require Import Prelude.Base.
Local Open Scope string_scope.

(* ------------------------------------------------------------------ values *)
(* a finite binary64 is num / 2^dexp exactly (float.as_integer_ratio); the driver sends the canonical pair *)
Inductive pfl := FFin (num : Z) (dexp : N) | FPInf | FNInf | FNaN (numpy_singleton : bool).

Inductive pty := TStr | TInt | TFloat | TBool | TNoneType | TList | TTuple | TDict | TUuid
               | TEntity | TPropertyGroup | TWorkspace | TPath.

(* an Entity (object, data, group: has .uid, isinstance Entity) or a PropertyGroup with its property_group_type *)
Inductive ekind := KEntity | KPropGroup (pgtype : string).

Inductive pv :=
| PNone
| PBool (b : bool)
| PInt (z : Z)
| PFloat (f : pfl)
| PStr (s : string)
| PUuid (u : N)                    (* uuid.UUID(int=u) *)
| PEnt (k : ekind) (u : N)         (* a live entity / property group of the workspace with that uid *)
| PWs (path : string)              (* a Workspace object for that h5file path *)
| PType (t : pty)
| PList (l : list pv)
| PTuple (l : list pv)
| PDict (d : list (pv * pv)).

Inductive vkind := VOptional | VAssociation | VPropertyGroup | VAtLeastOne | VRequired | VShape | VType | VUUID
                 | VValue | VAggregate | VTypeUID | VInCollection | VUIJsonFormat.

Inductive exn := KeyError | TypeError | ValueError | AttributeError | IndexError | UserWarning | OutOfFuel
               | Validation (k : vkind)           (* subclasses of BaseValidationError *)
               | JSONParameterValidationError.

Inductive res (A : Type) := Ok (a : A) | Raise (e : exn).
Arguments Ok {A} a.
Arguments Raise {A} e.

Definition bind {A B} (m : res A) (k : A -> res B) : res B :=
  match m with Ok a => k a | Raise e => Raise e end.
Notation "x <- m ;; k" := (bind m (fun x => k)) (at level 61, m at next level, right associativity).
Notation "' p <- m ;; k" := (bind m (fun x => let p := x in k))
  (at level 61, p pattern, m at next level, right associativity).

Definition is_validation (e : exn) : bool := match e with Validation _ => true | _ => false end.

(* ------------------------------------------------------------------ monadic list helpers *)
Fixpoint fold_res {S A} (f : S -> A -> res S) (l : list A) (s : S) : res S :=
  match l with
  | [] => Ok s
  | x :: r => s' <- f s x ;; fold_res f r s'
  end.

Fixpoint map_res {A B} (f : A -> res B) (l : list A) : res (list B) :=
  match l with
  | [] => Ok []
  | x :: r => y <- f x ;; ys <- map_res f r ;; Ok (y :: ys)
  end.

(* all(...) / any(...) over a generator whose element test may raise: left to right, short-circuit *)
Fixpoint all_res {A} (f : A -> res bool) (l : list A) : res bool :=
  match l with
  | [] => Ok true
  | x :: r => b <- f x ;; if b then all_res f r else Ok false
  end.
Fixpoint any_res {A} (f : A -> res bool) (l : list A) : res bool :=
  match l with
  | [] => Ok false
  | x :: r => b <- f x ;; if b then Ok true else any_res f r
  end.
Fixpoint filter_res {A} (f : A -> res bool) (l : list A) : res (list A) :=
  match l with
  | [] => Ok []
  | x :: r => b <- f x ;; ys <- filter_res f r ;; Ok (if b then x :: ys else ys)
  end.


(* list comprehension with a filter: element by element, test then value *)
Fixpoint comp_res {A B} (f : A -> res (option B)) (l : list A) : res (list B) :=
  match l with
  | [] => Ok []
  | x :: r => o <- f x ;; ys <- comp_res f r ;; Ok (match o with Some y => y :: ys | None => ys end)
  end.

(* try: m  except <BaseValidationError subclasses>: raise e *)
Definition catch_validation (m : res pv) (e : exn) : res pv :=
  match m with
  | Raise x => if is_validation x then Raise e else Raise x
  | ok => ok
  end.

(* try: m  except E: raise e'   (declared after exn_eqb below as catch_exn) *)

(* ------------------------------------------------------------------ numbers *)
Definition fl_eqb (a b : pfl) : bool :=
  match a, b with
  | FFin n1 d1, FFin n2 d2 => Z.eqb (n1 * 2 ^ Z.of_N d2) (n2 * 2 ^ Z.of_N d1)
  | FPInf, FPInf | FNInf, FNInf => true
  | _, _ => false                                    (* nan != nan *)
  end.
Definition int_fl_eqb (z : Z) (f : pfl) : bool :=
  match f with FFin n d => Z.eqb (z * 2 ^ Z.of_N d) n | _ => false end.
Definition b2z (b : bool) : Z := if b then 1%Z else 0%Z.

(* ------------------------------------------------------------------ == *)
Definition pty_eqb (a b : pty) : bool :=
  match a, b with
  | TStr, TStr | TInt, TInt | TFloat, TFloat | TBool, TBool | TNoneType, TNoneType | TList, TList | TTuple, TTuple
  | TDict, TDict | TUuid, TUuid | TEntity, TEntity | TPropertyGroup, TPropertyGroup | TWorkspace, TWorkspace
  | TPath, TPath => true
  | _, _ => false
  end.
Definition ekind_eqb (a b : ekind) : bool :=
  match a, b with
  | KEntity, KEntity => true
  | KPropGroup s, KPropGroup t => String.eqb s t
  | _, _ => false
  end.

(* Python ==.  Entities / workspaces compare by identity: one live object per uid / one token per path. *)
Fixpoint py_eq (a b : pv) {struct a} : bool :=
  let fix list_eq (l1 l2 : list pv) {struct l1} : bool :=
    match l1, l2 with
    | [], [] => true
    | x :: r1, y :: r2 => py_eq x y && list_eq r1 r2
    | _, _ => false
    end in
  let fix sub_dict (d1 d2 : list (pv * pv)) {struct d1} : bool :=
    match d1 with
    | [] => true
    | (k, v) :: r =>
        (let fix find (d : list (pv * pv)) : bool :=
           match d with
           | [] => false
           | (k2, v2) :: r2 => if py_eq k k2 then py_eq v v2 else find r2
           end in find d2) && sub_dict r d2
    end in
  match a, b with
  | PNone, PNone => true
  | PBool x, PBool y => Bool.eqb x y
  | PBool x, PInt z => Z.eqb (b2z x) z
  | PBool x, PFloat f => int_fl_eqb (b2z x) f
  | PInt z, PBool y => Z.eqb z (b2z y)
  | PInt x, PInt y => Z.eqb x y
  | PInt z, PFloat f => int_fl_eqb z f
  | PFloat f, PBool y => int_fl_eqb (b2z y) f
  | PFloat f, PInt z => int_fl_eqb z f
  | PFloat f, PFloat g => fl_eqb f g
  | PStr s, PStr t => String.eqb s t
  | PUuid u, PUuid w => N.eqb u w
  | PEnt k u, PEnt k2 w => ekind_eqb k k2 && N.eqb u w
  | PWs p, PWs q => String.eqb p q
  | PType s, PType t => pty_eqb s t
  | PList l1, PList l2 => list_eq l1 l2
  | PTuple l1, PTuple l2 => list_eq l1 l2
  | PDict d1, PDict d2 => Nat.eqb (length d1) (length d2) && sub_dict d1 d2
  | _, _ => false
  end.

(* structural equality (used to compare the model's result with the observation): distinguishes 1 / True / 1.0,
   dict order, list / tuple *)
Definition fl_same (a b : pfl) : bool :=
  match a, b with
  | FFin n1 d1, FFin n2 d2 => Z.eqb n1 n2 && N.eqb d1 d2
  | FPInf, FPInf | FNInf, FNInf => true
  | FNaN x, FNaN y => Bool.eqb x y
  | _, _ => false
  end.
Fixpoint pv_same (a b : pv) {struct a} : bool :=
  let fix list_same (l1 l2 : list pv) {struct l1} : bool :=
    match l1, l2 with
    | [], [] => true
    | x :: r1, y :: r2 => pv_same x y && list_same r1 r2
    | _, _ => false
    end in
  let fix dict_same (d1 d2 : list (pv * pv)) {struct d1} : bool :=
    match d1, d2 with
    | [], [] => true
    | (k1, v1) :: r1, (k2, v2) :: r2 => pv_same k1 k2 && pv_same v1 v2 && dict_same r1 r2
    | _, _ => false
    end in
  match a, b with
  | PNone, PNone => true
  | PBool x, PBool y => Bool.eqb x y
  | PInt x, PInt y => Z.eqb x y
  | PFloat f, PFloat g => fl_same f g
  | PStr s, PStr t => String.eqb s t
  | PUuid u, PUuid w => N.eqb u w
  | PEnt k u, PEnt k2 w => ekind_eqb k k2 && N.eqb u w
  | PWs p, PWs q => String.eqb p q
  | PType s, PType t => pty_eqb s t
  | PList l1, PList l2 => list_same l1 l2
  | PTuple l1, PTuple l2 => list_same l1 l2
  | PDict d1, PDict d2 => dict_same d1 d2
  | _, _ => false
  end.

Definition exn_eqb (a b : exn) : bool :=
  match a, b with
  | KeyError, KeyError | TypeError, TypeError | ValueError, ValueError | AttributeError, AttributeError
  | IndexError, IndexError | UserWarning, UserWarning | OutOfFuel, OutOfFuel
  | JSONParameterValidationError, JSONParameterValidationError => true
  | Validation k1, Validation k2 =>
      match k1, k2 with
      | VOptional, VOptional | VAssociation, VAssociation | VPropertyGroup, VPropertyGroup | VAtLeastOne, VAtLeastOne
      | VRequired, VRequired | VShape, VShape | VType, VType | VUUID, VUUID | VValue, VValue | VAggregate, VAggregate
      | VTypeUID, VTypeUID | VInCollection, VInCollection | VUIJsonFormat, VUIJsonFormat => true
      | _, _ => false
      end
  | _, _ => false
  end.

Definition catch_exn (m : res pv) (e e' : exn) : res pv :=
  match m with
  | Raise x => if exn_eqb x e then Raise e' else Raise x
  | ok => ok
  end.

Definition res_same (a b : res pv) : bool :=
  match a, b with
  | Ok x, Ok y => pv_same x y
  | Raise e, Raise f => exn_eqb e f
  | _, _ => false
  end.

(* ------------------------------------------------------------------ truthiness, isinstance *)
Definition truthy (v : pv) : bool :=
  match v with
  | PNone => false
  | PBool b => b
  | PInt z => negb (Z.eqb z 0)
  | PFloat (FFin n _) => negb (Z.eqb n 0)
  | PFloat _ => true
  | PStr s => negb (String.eqb s "")
  | PList l | PTuple l => match l with [] => false | _ => true end
  | PDict d => match d with [] => false | _ => true end
  | PUuid _ | PEnt _ _ | PWs _ | PType _ => true
  end.

(* isinstance(v, t): bool is an int; a str is not a Path; entities are Entity, property groups PropertyGroup *)
Definition isinst1 (v : pv) (t : pty) : bool :=
  match v, t with
  | PNone, TNoneType => true
  | PBool _, TBool | PBool _, TInt => true
  | PInt _, TInt => true
  | PFloat _, TFloat => true
  | PStr _, TStr => true
  | PUuid _, TUuid => true
  | PEnt KEntity _, TEntity => true
  | PEnt (KPropGroup _) _, TPropertyGroup => true
  | PWs _, TWorkspace => true
  | PList _, TList => true
  | PTuple _, TTuple => true
  | PDict _, TDict => true
  | _, _ => false
  end.
Definition isinst (v : pv) (ts : list pty) : bool := existsb (isinst1 v) ts.

Definition is_none (v : pv) : bool := match v with PNone => true | _ => false end.
Definition is_np_nan (v : pv) : bool := match v with PFloat (FNaN true) => true | _ => false end.   (* `v is np.nan` *)
Definition has_uid (v : pv) : bool := match v with PEnt _ _ => true | _ => false end.              (* hasattr(v, "uid") *)

(* ------------------------------------------------------------------ containers *)
Fixpoint dict_find (k : pv) (d : list (pv * pv)) : option pv :=
  match d with
  | [] => None
  | (k2, v) :: r => if py_eq k k2 then Some v else dict_find k r
  end.
Fixpoint dict_set (d : list (pv * pv)) (k v : pv) : list (pv * pv) :=
  match d with
  | [] => [(k, v)]
  | (k2, w) :: r => if py_eq k k2 then (k2, v) :: r else (k2, w) :: dict_set r k v
  end.
Fixpoint dict_del (d : list (pv * pv)) (k : pv) : list (pv * pv) :=
  match d with
  | [] => []
  | (k2, w) :: r => if py_eq k k2 then r else (k2, w) :: dict_del r k
  end.
Definition dict_has (k : pv) (d : list (pv * pv)) : bool :=
  match dict_find k d with Some _ => true | None => false end.

(* hashability: only what can be a dict key *)
Fixpoint hashable (k : pv) : bool :=
  match k with PList _ | PDict _ => false | PTuple l => forallb hashable l | _ => true end.

Fixpoint str_chars (s : string) : list pv :=
  match s with EmptyString => [] | String c r => PStr (String c EmptyString) :: str_chars r end.

(* x[i] *)
Definition norm_index (z : Z) (n : nat) : option nat :=
  let z' := if (z <? 0)%Z then (z + Z.of_nat n)%Z else z in
  if ((0 <=? z') && (z' <? Z.of_nat n))%Z%bool then Some (Z.to_nat z') else None.

Definition getitem (c k : pv) : res pv :=
  match c with
  | PDict d => if hashable k then match dict_find k d with Some v => Ok v | None => Raise KeyError end else Raise TypeError
  | PList l | PTuple l =>
      match k with
      | PInt z => match norm_index z (length l) with Some i => match nth_error l i with Some v => Ok v | None => Raise IndexError end | None => Raise IndexError end
      | PBool b => match nth_error l (if b then 1 else 0) with Some v => Ok v | None => Raise IndexError end
      | _ => Raise TypeError
      end
  | _ => Raise TypeError
  end.

(* c[k] = v on the value bound to a local name: returns the updated container *)
Definition setitem (c k v : pv) : res pv :=
  match c with
  | PDict d => if hashable k then Ok (PDict (dict_set d k v)) else Raise TypeError
  | PList l =>
      match k with
      | PInt z => match norm_index z (length l) with
                  | Some i => Ok (PList (firstn i l ++ v :: skipn (S i) l))
                  | None => Raise IndexError end
      | _ => Raise TypeError
      end
  | _ => Raise TypeError
  end.

Definition delitem (c k : pv) : res pv :=
  match c with
  | PDict d => if hashable k then (if dict_has k d then Ok (PDict (dict_del d k)) else Raise KeyError) else Raise TypeError
  | _ => Raise TypeError
  end.

(* d.get(k, default) *)
Definition dict_get (c k dflt : pv) : res pv :=
  match c with
  | PDict d => if hashable k then Ok (match dict_find k d with Some v => v | None => dflt end) else Raise TypeError
  | _ => Raise AttributeError
  end.

Definition dict_items (c : pv) : res (list (pv * pv)) :=
  match c with PDict d => Ok d | _ => Raise AttributeError end.
Definition dict_keys (c : pv) : res (list pv) :=
  match c with PDict d => Ok (map fst d) | _ => Raise AttributeError end.
Definition dict_values (c : pv) : res (list pv) :=
  match c with PDict d => Ok (map snd d) | _ => Raise AttributeError end.

(* iter(x) *)
Definition iter_list (c : pv) : res (list pv) :=
  match c with
  | PList l | PTuple l => Ok l
  | PDict d => Ok (map fst d)
  | PStr s => Ok (str_chars s)
  | _ => Raise TypeError
  end.

(* substring test *)
Fixpoint prefixb (p s : string) : bool :=
  match p, s with
  | EmptyString, _ => true
  | String a p', String b s' => Ascii.eqb a b && prefixb p' s'
  | _, _ => false
  end.
Fixpoint substrb (p s : string) : bool :=
  prefixb p s || match s with EmptyString => false | String _ s' => substrb p s' end.

(* x in c *)
Definition contains (x c : pv) : res bool :=
  match c with
  | PList l | PTuple l => Ok (existsb (py_eq x) l)
  | PDict d => if hashable x then Ok (dict_has x d) else Raise TypeError
  | PStr s => match x with PStr p => Ok (substrb p s) | _ => Raise TypeError end
  | _ => Raise TypeError
  end.
(* x in d.keys() *)
Definition in_keys (x c : pv) : res bool :=
  match c with PDict d => if hashable x then Ok (dict_has x d) else Raise TypeError | _ => Raise AttributeError end.

Definition py_len (c : pv) : res pv :=
  match c with
  | PList l | PTuple l => Ok (PInt (Z.of_nat (length l)))
  | PDict d => Ok (PInt (Z.of_nat (length d)))
  | PStr s => Ok (PInt (Z.of_nat (String.length s)))
  | _ => Raise TypeError
  end.

(* a += b  for lists (b any iterable), a + b for str / list / tuple *)
Definition iadd (a b : pv) : res pv :=
  match a with
  | PList l => r <- iter_list b ;; Ok (PList (l ++ r))
  | PStr s => match b with PStr t => Ok (PStr (s ++ t)) | _ => Raise TypeError end
  | PTuple l => match b with PTuple r => Ok (PTuple (l ++ r)) | _ => Raise TypeError end
  | _ => Raise TypeError
  end.
Definition py_add (a b : pv) : res pv :=
  match a, b with
  | PList l, PList r => Ok (PList (l ++ r))
  | PStr s, PStr t => Ok (PStr (s ++ t))
  | PTuple l, PTuple r => Ok (PTuple (l ++ r))
  | PInt x, PInt y => Ok (PInt (x + y))
  | _, _ => Raise TypeError
  end.


(* a & b on bool / int operands (used as a non-short-circuit `and`); anything else has no __and__ *)
Definition py_bitand (a b : pv) : res pv :=
  match a, b with
  | PBool x, PBool y => Ok (PBool (x && y))
  | PBool x, PInt z => Ok (PInt (Z.land (b2z x) z))
  | PInt z, PBool y => Ok (PInt (Z.land z (b2z y)))
  | PInt x, PInt y => Ok (PInt (Z.land x y))
  | _, _ => Raise TypeError
  end.

(* hasattr(v, "__iter__") *)
Definition has_iter (v : pv) : bool :=
  match v with PList _ | PTuple _ | PDict _ | PStr _ => true | _ => false end.
(* isinstance(v, type) *)
Definition is_type (v : pv) : bool := match v with PType _ => true | _ => false end.
(* type(v) *)
Definition py_type (v : pv) : res pv :=
  Ok (PType match v with
     | PNone => TNoneType | PBool _ => TBool | PInt _ => TInt | PFloat _ => TFloat | PStr _ => TStr | PUuid _ => TUuid
     | PEnt KEntity _ => TEntity | PEnt (KPropGroup _) _ => TPropertyGroup | PWs _ => TWorkspace | PType _ => TNoneType
     | PList _ => TList | PTuple _ => TTuple | PDict _ => TDict end).
(* isinstance(v, tuple(ts)) for a list / tuple of type objects *)
Definition isinst_dyn (v ts : pv) : res bool :=
  match ts with
  | PList l | PTuple l =>
      all_ok <- all_res (fun t => Ok (is_type t)) l ;;
      if all_ok then Ok (existsb (fun t => match t with PType ty => isinst1 v ty | _ => false end) l) else Raise TypeError
  | _ => Raise TypeError
  end.

(* d.update(other) / l.append(x) on the value bound to a local name *)
Definition dict_update (c o : pv) : res pv :=
  match c, o with
  | PDict d, PDict e => Ok (PDict (fold_left (fun acc kv => dict_set acc (fst kv) (snd kv)) e d))
  | PDict _, _ => Raise TypeError
  | _, _ => Raise AttributeError
  end.
Definition list_append (c x : pv) : res pv :=
  match c with PList l => Ok (PList (l ++ [x])) | _ => Raise AttributeError end.

(* list(x), tuple(x), x.copy() (shallow: values are immutable here) *)
Definition py_list (c : pv) : res pv := l <- iter_list c ;; Ok (PList l).
Definition py_tuple (c : pv) : res pv := l <- iter_list c ;; Ok (PTuple l).
Definition py_copy (c : pv) : res pv :=
  match c with PList _ | PDict _ => Ok c | _ => Raise AttributeError end.

(* ------------------------------------------------------------------ strings: decimal, hex, uuid text, paths *)
Definition digit_char (n : N) : ascii :=
  match n with
  | 0 => "0" | 1 => "1" | 2 => "2" | 3 => "3" | 4 => "4" | 5 => "5" | 6 => "6" | 7 => "7" | 8 => "8" | 9 => "9"
  | 10 => "a" | 11 => "b" | 12 => "c" | 13 => "d" | 14 => "e" | _ => "f"
  end%N%char.

(* decimal text of a natural number, fuelled by the number of binary digits *)
Fixpoint dec_digits (fuel : nat) (n : N) (acc : string) : string :=
  match fuel with
  | O => acc
  | S f => let acc' := String (digit_char (n mod 10)) acc in
           if (n / 10 =? 0)%N then acc' else dec_digits f (n / 10) acc'
  end.
Definition dec_of_N (n : N) : string := dec_digits (S (N.to_nat (N.size n))) n "".
Definition dec_of_Z (z : Z) : string :=
  match z with
  | Z0 => "0"
  | Zpos p => dec_of_N (Npos p)
  | Zneg p => String "-"%char (dec_of_N (Npos p))
  end.

(* k hexadecimal digits of u, most significant first (u mod 16^k) *)
Fixpoint hex_digits (k : nat) (u : N) (acc : string) : string :=
  match k with
  | O => acc
  | S k' => hex_digits k' (u / 16) (String (digit_char (u mod 16)) acc)
  end.

Definition hex_val (c : ascii) : option N :=
  let n := N_of_ascii c in
  if ((48 <=? n) && (n <=? 57))%N then Some (n - 48)%N
  else if ((97 <=? n) && (n <=? 102))%N then Some (n - 87)%N
  else if ((65 <=? n) && (n <=? 70))%N then Some (n - 55)%N
  else None.
Fixpoint hex_parse (s : string) (acc : N) : option N :=
  match s with
  | EmptyString => Some acc
  | String c r => match hex_val c with Some d => hex_parse r (acc * 16 + d)%N | None => None end
  end.

Fixpoint str_take (n : nat) (s : string) : string :=
  match n, s with
  | S n', String c r => String c (str_take n' r)
  | _, _ => EmptyString
  end.
Fixpoint str_drop (n : nat) (s : string) : string :=
  match n, s with
  | S n', String _ r => str_drop n' r
  | _, _ => s
  end.

(* str(uuid.UUID(int=u)) = 8-4-4-4-12 lower-case hex *)
Definition uuid_text (u : N) : string :=
  let h := hex_digits 32 u "" in
  str_take 8 h ++ "-" ++ str_take 4 (str_drop 8 h) ++ "-" ++ str_take 4 (str_drop 12 h) ++ "-"
  ++ str_take 4 (str_drop 16 h) ++ "-" ++ str_drop 20 h.

(* s.replace(p, "") for non-empty p: left to right, non-overlapping *)
Fixpoint str_remove (fuel : nat) (p s : string) : string :=
  match fuel with
  | O => s
  | S f =>
      match s with
      | EmptyString => EmptyString
      | String c r => if prefixb p s then str_remove f p (str_drop (String.length p) s) else String c (str_remove f p r)
      end
  end.
Fixpoint str_filter (keep : ascii -> bool) (s : string) : string :=
  match s with
  | EmptyString => EmptyString
  | String c r => if keep c then String c (str_filter keep r) else str_filter keep r
  end.
Fixpoint lstrip (drop : ascii -> bool) (s : string) : string :=
  match s with
  | EmptyString => EmptyString
  | String c r => if drop c then lstrip drop r else s
  end.
Fixpoint str_rev_acc (s acc : string) : string :=
  match s with EmptyString => acc | String c r => str_rev_acc r (String c acc) end.
Definition str_rev (s : string) : string := str_rev_acc s "".
Definition strip (drop : ascii -> bool) (s : string) : string := str_rev (lstrip drop (str_rev (lstrip drop s))).

Definition is_brace (c : ascii) : bool := Ascii.eqb c "{" || Ascii.eqb c "}".
Definition not_hyphen (c : ascii) : bool := negb (Ascii.eqb c "-").

(* uuid.UUID(hex=s): hex = s.replace('urn:', '').replace('uuid:', ''); hex = hex.strip('{}').replace('-', '');
   32 characters, then int(hex, 16).  NOT modelled: the extra leniency of int() (sign, 0x prefix, underscores,
   surrounding whitespace) — see ASSUMPTIONS in tools/props/c14.py. *)
Definition parse_uuid (s : string) : option N :=
  let n := S (String.length s) in
  let h := str_filter not_hyphen (strip is_brace (str_remove n "uuid:" (str_remove n "urn:" s))) in
  if Nat.eqb (String.length h) 32 then hex_parse h 0%N else None.

(* str(v) as far as UUID(str(v)) can tell: only str, int and UUID values can be uuid-shaped
   (repr of floats / None / bool / containers / objects never has 32 hex digits after the clean-up) *)
Definition uuid_of_value (v : pv) : option N :=
  match v with
  | PStr s => parse_uuid s
  | PInt z => parse_uuid (dec_of_Z z)
  | PUuid u => Some u
  | _ => None
  end.
Definition py_is_uuid (v : pv) : bool := match uuid_of_value v with Some _ => true | None => false end.   (* shared.utils.is_uuid *)
Definition py_uuid_of (v : pv) : res pv :=                                                                  (* UUID(str(v)) *)
  match uuid_of_value v with Some u => Ok (PUuid u) | None => Raise ValueError end.

(* str(v) where the translated code builds text from it: non-finite floats, UUIDs, strings, ints, None, bool *)
Definition py_str (v : pv) : res pv :=
  match v with
  | PStr s => Ok (PStr s)
  | PInt z => Ok (PStr (dec_of_Z z))
  | PBool true => Ok (PStr "True")
  | PBool false => Ok (PStr "False")
  | PNone => Ok (PStr "None")
  | PFloat FPInf => Ok (PStr "inf")
  | PFloat FNInf => Ok (PStr "-inf")
  | PFloat (FNaN _) => Ok (PStr "nan")
  | PUuid u => Ok (PStr (uuid_text u))
  | _ => Raise TypeError            (* outside the modelled fragment: makes the correspondence fail, never a theorem true *)
  end.

(* float(s) for the two strings str2inf passes to it *)
Definition py_float (v : pv) : res pv :=
  match v with
  | PStr s => if String.eqb s "inf" then Ok (PFloat FPInf) else if String.eqb s "-inf" then Ok (PFloat FNInf) else Raise ValueError
  | PFloat f => Ok (PFloat f)
  | PInt z => Ok (PFloat (FFin z 0))
  | PBool b => Ok (PFloat (FFin (b2z b) 0))
  | _ => Raise TypeError
  end.

(* np.isfinite(v) for a Python int / float / bool: ints outside [-2^63, 2^64) have no numpy integer type -> TypeError *)
Definition np_isfinite (v : pv) : res bool :=
  match v with
  | PBool _ => Ok true
  | PInt z => if ((- 2 ^ 63 <=? z) && (z <? 2 ^ 64))%Z then Ok true else Raise TypeError
  | PFloat (FFin _ _) => Ok true
  | PFloat _ => Ok false
  | _ => Raise TypeError
  end.

(* pathlib.Path(s).suffix for a str: trailing '/' dropped, last path component, last '.' that is neither first nor last *)
Definition is_slash (c : ascii) : bool := Ascii.eqb c "/".
Fixpoint after_last (sep : ascii) (s acc : string) : string :=   (* acc = text after the last separator seen so far *)
  match s with
  | EmptyString => acc
  | String c r => if Ascii.eqb c sep then after_last sep r r else after_last sep r acc
  end.
Fixpoint last_dot (s : string) (i : nat) (best : option nat) : option nat :=
  match s with
  | EmptyString => best
  | String c r => last_dot r (S i) (if Ascii.eqb c "." then Some i else best)
  end.
Definition path_suffix (s : string) : string :=
  let t := str_rev (lstrip is_slash (str_rev s)) in
  let name := after_last "/" t t in
  match last_dot name 0 None with
  | Some i => if (Nat.ltb 0 i && Nat.ltb (S i) (String.length name))%bool then str_drop i name else ""
  | None => ""
  end.

(* ui_json.utils.path2workspace / workspace2path (hand model: opening the file is not modelled; the Workspace object
   is the token of its path) *)
Definition path2workspace (v : pv) : res pv :=
  match v with
  | PStr s => if String.eqb (path_suffix s) ".geoh5" then Ok (PWs s) else Ok v
  | _ => Ok v
  end.
Definition workspace2path (v : pv) : res pv :=
  match v with PWs p => Ok (PStr p) | _ => Ok v end.
(* container_group2name: a ContainerGroup is an Entity; the model keeps no names (the mapper runs after entity2uuid and
   never sees one, see notes/C14.md) *)
Definition container_group2name (v : pv) : res pv := Ok v.
(* value.uid *)
Definition get_uid (v : pv) : res pv := match v with PEnt _ u => Ok (PUuid u) | _ => Raise AttributeError end.

(* ------------------------------------------------------------------ well-formed values: dict keys hashable and distinct *)
Fixpoint keys_distinct (ks : list pv) : bool :=
  match ks with
  | [] => true
  | k :: r => negb (existsb (fun k2 => py_eq k k2 || py_eq k2 k) r) && keys_distinct r
  end.

Fixpoint wf_pv (v : pv) : bool :=
  match v with
  | PList l | PTuple l => forallb wf_pv l
  | PDict d => forallb (fun kv => hashable (fst kv) && wf_pv (fst kv) && wf_pv (snd kv)) d && keys_distinct (map fst d)
  | PUuid u => (u <? 2 ^ 128)%N
  | PEnt _ u => (u <? 2 ^ 128)%N
  | _ => true
  end.

(* nesting depth, for fuel bounds *)
Fixpoint depth (v : pv) : nat :=
  match v with
  | PList l | PTuple l => S (fold_right (fun x m => Nat.max (depth x) m) 0 l)
  | PDict d => S (fold_right (fun kv m => Nat.max (depth (snd kv)) m) 0 d)
  | _ => 0
  end.
