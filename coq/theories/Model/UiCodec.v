(* UiCodec — hand-written parts of the ui.json write/read pipeline (property C14).  Definitions only.

   PyLite output used here: demote, stringify, numify (PyLite_InputFile.v), dict_mapper and the mappers
   (PyLite_SharedUtils.v), flatten, collect, find_all, dependency_requires_value, requires_value (PyLite_UiUtils.v).
   Hand-transcribed here (aliasing / self / libraries):
     json.dump + json.load                       json_roundtrip
     shared.utils.uuid2entity, InputFile.{_uid_promotion, promote}
     ui_json.utils.set_enabled, InputFile.update_ui_values   (mutation through aliases of the form dictionaries)
     InputFile.{ui_json setter, data getter/setter, write_ui_json, read_ui_json}  with validate=False
   The workspace is a [world] (Model/Enforcers.v); a Workspace object is the token of its path. *)
From Coq Require Import String.
From GV Require Import Prelude.Base Model.PyVal Model.UiRules Model.Enforcers Model.UiForms.
From GVgen Require Import PyLite_SharedUtils PyLite_UiUtils PyLite_Validators Table_UiValidations PyLite_InputFile.
Local Open Scope string_scope.

(* ------------------------------------------------------------------ json.dump ; json.load *)
(* Python's json writes tuples as arrays, keeps int / float / str / bool / None, writes non-finite floats as the
   non-standard tokens Infinity / NaN (allow_nan=True) and reads them back; anything else is not serialisable. *)
Fixpoint json_roundtrip (v : pv) : res pv :=
  let fix go_list (l : list pv) : res (list pv) :=
    match l with
    | [] => Ok []
    | x :: r => y <- json_roundtrip x ;; ys <- go_list r ;; Ok (y :: ys)
    end in
  let fix go_dict (d : list (pv * pv)) : res (list (pv * pv)) :=
    match d with
    | [] => Ok []
    | (PStr s, x) :: r => y <- json_roundtrip x ;; ys <- go_dict r ;; Ok ((PStr s, y) :: ys)
    | _ :: _ => Raise TypeError                   (* non-string keys are outside the modelled fragment *)
    end in
  match v with
  | PNone | PBool _ | PInt _ | PStr _ => Ok v
  | PFloat (FNaN _) => Ok (PFloat (FNaN false))
  | PFloat _ => Ok v
  | PList l | PTuple l => l' <- go_list l ;; Ok (PList l')
  | PDict d => d' <- go_dict d ;; Ok (PDict d')
  | PUuid _ | PEnt _ _ | PWs _ | PType _ => Raise TypeError
  end.

(* the text on disk contains a token that is not JSON (Infinity, -Infinity, NaN) *)
Fixpoint has_nonfinite (v : pv) : bool :=
  match v with
  | PFloat (FFin _ _) => false
  | PFloat _ => true
  | PList l | PTuple l => existsb has_nonfinite l
  | PDict d => existsb (fun kv => has_nonfinite (snd kv)) d
  | _ => false
  end.

(* ------------------------------------------------------------------ promotion *)
(* shared.utils.uuid2entity *)
Definition uuid2entity (W : world) (v : pv) : pv :=
  match v with
  | PUuid u => match w_kind W u with Some k => PEnt k u | None => PNone end
  | _ => v
  end.
(* InputFile._uid_promotion (self._geoh5 is the world workspace) *)
Definition uid_promotion (W : world) (validate : bool) (key value : pv) : res pv :=
  match value with
  | PUuid _ =>
      _ <- (if validate then AssociationValidator_validate W key value (PWs "WORLD") else Ok PNone) ;;
      Ok (uuid2entity W value)
  | _ => Ok value
  end.
(* InputFile.promote: dictionaries recursively, lists element-wise, everything else directly *)
Fixpoint promote (fuel : nat) (W : world) (validate : bool) (var : pv) : res pv :=
  match fuel with
  | O => Raise OutOfFuel
  | S fuel =>
      match var with
      | PDict d =>
          d' <- map_res (fun kv =>
                  match snd kv with
                  | PDict _ => x <- promote fuel W validate (snd kv) ;; Ok (fst kv, x)
                  | PList l => l' <- map_res (uid_promotion W validate (fst kv)) l ;; Ok (fst kv, PList l')
                  | x => y <- uid_promotion W validate (fst kv) x ;; Ok (fst kv, y)
                  end) d ;;
          Ok (PDict d')
      | _ => Raise AttributeError
      end
  end.

(* ------------------------------------------------------------------ set_enabled, update_ui_values *)
Definition set_member (ui key member value : pv) : res pv :=
  form <- getitem ui key ;; form' <- setitem form member value ;; setitem ui key form'.

(* ui_json.utils.set_enabled(ui_json, parameter, value): the group loop writes through the aliases of the forms *)
Definition set_enabled (ui p value : pv) : res pv :=
  form <- getitem ui p ;;
  opt <- dict_get form (PStr "optional") (PBool false) ;;
  ui <- (if truthy opt then set_member ui p (PStr "enabled") value else Ok ui) ;;
  form <- getitem ui p ;;
  gname <- dict_get form (PStr "group") (PBool false) ;;
  '(ui, is_go) <-
     (if truthy gname then
        group <- collect ui (PStr "group") gname ;;
        params <- find_all group (PStr "groupOptional") PNone ;;
        match params with
        | PList (k0 :: _) =>
            if py_eq k0 p then
              keys <- dict_keys group ;;
              ui' <- fold_res (fun u k => set_member u k (PStr "enabled") value) keys ui ;;
              Ok (ui', true)
            else Ok (ui, true)
        | _ => Ok (ui, false)
        end
      else Ok (ui, false)) ;;
  form <- getitem ui p ;;
  has_dep <- contains (PStr "dependency") form ;;
  _ <- (if negb is_go && has_dep then dependency_requires_value ui p else Ok PNone) ;;   (* only its exceptions matter *)
  Ok ui.

(* InputFile.update_ui_values(data) with validation_options["update_enabled"] = upd *)
Definition update_ui_values (upd : bool) (ui data : pv) : res pv :=
  items <- dict_items data ;;
  fold_res (fun ui '(key, value) =>
     cur <- getitem ui key ;;
     if isinst cur [TDict] then
       enabled <- dict_get cur (PStr "enabled") PNone ;;
       ui <- (if negb (is_none enabled)
              then set_enabled ui key (if upd then PBool (negb (is_none value)) else enabled)
              else Ok ui) ;;
       cur <- getitem ui key ;;
       has_iv <- contains (PStr "isValue") cur ;;
       let to_prop := has_iv && isinst value [TEntity; TUuid] in
       ui <- (if has_iv then set_member ui key (PStr "isValue") (PBool (negb to_prop)) else Ok ui) ;;
       cur <- getitem ui key ;;
       en <- dict_get cur (PStr "enabled") (PBool false) ;;
       if is_none value && negb (truthy en) then Ok ui
       else set_member ui key (PStr (if to_prop then "property" else "value")) value
     else setitem ui key value) items ui.

(* ------------------------------------------------------------------ InputFile with validate=False, promotion=True *)
(* InputValidation.infer_validations runs in the ui_json setter whatever `validate` says: only its exceptions matter
   here (requires_value is called for every dictionary parameter) *)
Definition infer_raises (ui : pv) : res pv :=
  items <- dict_items ui ;;
  _ <- fold_res (fun (_ : unit) '(key, item) =>
         if isinst item [TDict] then _ <- requires_value ui key ;; Ok tt else Ok tt) items tt ;;
  Ok PNone.

(* InputFile(ui_json=ui, validate=False): the ui_json setter *)
Definition if_set_ui (fuel : nat) (ui : pv) : res pv :=
  ui' <- InputFile_numify fuel ui ;;
  _ <- infer_raises ui' ;;
  Ok ui'.

(* the geoh5 setter as reached from the data setter: None is ignored, anything but a Workspace is refused *)
Definition geoh5_ok (data : pv) : res bool :=
  has <- contains (PStr "geoh5") data ;;
  if has then
    g <- getitem data (PStr "geoh5") ;;
    match g with PNone => Ok false | PWs _ => Ok true | _ => Raise ValueError end
  else Ok false.

(* `.data` read for the first time: flatten, promote (when a workspace is known), update_ui_values without touching
   the enabled members; returns (ui_json afterwards, data) *)
Definition if_data (fuel : nat) (W : world) (ui : pv) : res (pv * pv) :=
  flat <- flatten ui ;;
  has_ws <- geoh5_ok flat ;;
  data <- (if has_ws then promote fuel W false flat else Ok flat) ;;
  ui' <- update_ui_values false ui data ;;
  Ok (ui', data).

(* write_ui_json: update_ui_values(self.data) with update_enabled as configured (True), then demote, stringify, json *)
Definition if_write (fuel : nat) (ui data : pv) : res (pv * pv) :=
  ui' <- update_ui_values true ui data ;;
  dem <- InputFile_demote fuel ui' ;;
  txt <- InputFile_stringify fuel dem ;;
  Ok (ui', txt).

(* InputFile.set_data_value(key, value) with validate=False (key is never "geoh5" here) *)
Definition if_set_value (st : pv * pv) (kv : pv * pv) : res (pv * pv) :=
  let '(ui, data) := st in
  data' <- setitem data (fst kv) (snd kv) ;;
  ui' <- update_ui_values true ui (PDict [kv]) ;;
  Ok (ui', data').

(* the whole trip: construct, read .data, set some values, write, json, read back, read .data *)
Record trip := { t_ui0 : pv; t_data0 : pv; t_ui_written : pv; t_json : pv; t_ui1 : pv; t_data1 : pv }.

Definition round_trip (fuel : nat) (W : world) (ui_in : pv) (sets : list (pv * pv)) : res trip :=
  ui0 <- if_set_ui fuel ui_in ;;
  st <- if_data fuel W ui0 ;;
  '(ui0, d0) <- fold_res if_set_value sets st ;;
  '(uiw, txt) <- if_write fuel ui0 d0 ;;
  j <- json_roundtrip txt ;;
  ui1 <- if_set_ui fuel j ;;
  '(ui1, d1) <- if_data fuel W ui1 ;;
  known <- geoh5_ok d1 ;;
  _ <- (if known then Ok PNone else getitem d1 (PStr "geoh5")) ;;      (* read_ui_json: input_file.geoh5 -> self.data["geoh5"] *)
  Ok {| t_ui0 := ui0; t_data0 := d0; t_ui_written := uiw; t_json := j; t_ui1 := ui1; t_data1 := d1 |}.

(* ------------------------------------------------------------------ statements about values (used by Properties/C14.v) *)
Definition apply_all (fs : list (pv -> res pv)) (v : pv) : res pv := fold_res (fun v f => f v) fs v.
Definition demote_funs : list (pv -> res pv) := [entity2uuid; as_str_if_uuid; workspace2path; container_group2name].
Definition write_funs : list (pv -> res pv) := [nan2str; inf2str; as_str_if_uuid; none2str].
Definition read_funs : list (pv -> res pv) := [str2none; str2inf; str2uuid; path2workspace].

(* one value through the mappers exactly as demote / stringify / json / numify apply them (dict_mapper each time) *)
Definition value_trip (fuel : nat) (v : pv) : res pv :=
  v1 <- dict_mapper fuel v demote_funs ;;
  v2 <- dict_mapper fuel v1 write_funs ;;
  v3 <- json_roundtrip v2 ;;
  dict_mapper fuel v3 read_funs.
(* what is written *)
Definition value_written (fuel : nat) (v : pv) : res pv :=
  v1 <- dict_mapper fuel v demote_funs ;; dict_mapper fuel v1 write_funs.

Definition is_some {A} (o : option A) : bool := match o with Some _ => true | None => false end.

(* strings that are not the text of another value kind *)
Definition string_safe (s : string) : bool :=
  negb (String.eqb s "") && negb (String.eqb s "inf") && negb (String.eqb s "-inf")
  && negb (is_some (parse_uuid s)) && negb (String.eqb (path_suffix s) ".geoh5").
Definition int_safe (z : Z) : bool := negb (is_some (parse_uuid (dec_of_Z z))).
(* the braced text of a uuid parses back to it and is not a workspace path (decidable) *)
Definition uuid_text_ok (u : N) : bool :=
  let t := (("{" ++ uuid_text u) ++ "}")%string in
  match parse_uuid t with Some w => N.eqb w u | None => false end
  && negb (String.eqb (path_suffix t) ".geoh5").
Definition ws_path_ok (p : string) : bool :=
  negb (String.eqb p "") && negb (String.eqb p "inf") && negb (String.eqb p "-inf")
  && negb (is_some (parse_uuid p)) && String.eqb (path_suffix p) ".geoh5".

(* scalars whose text form is not the text form of another value *)
Definition atom_safe (v : pv) : bool :=
  match v with
  | PNone | PBool _ => true
  | PInt z => int_safe z
  | PFloat (FNaN _) => false
  | PFloat _ => true
  | PStr s => string_safe s
  | PUuid u | PEnt _ u => uuid_text_ok u
  | PWs p => ws_path_ok p
  | _ => false
  end.
(* what comes back before promotion: entities as their identifiers *)
Definition canon (v : pv) : pv := match v with PEnt _ u => PUuid u | _ => v end.
Definition is_atom (v : pv) : bool :=
  match v with PList _ | PTuple _ | PDict _ | PType _ => false | _ => true end.

(* ------------------------------------------------------------------ whole dictionaries (statements of C14_file_roundtrip) *)
(* the value a list of functions gives for a leaf (the theorems only use it where apply_all succeeds) *)
Definition unwrap (fs : list (pv -> res pv)) (a : pv) : pv :=
  match apply_all fs a with Ok x => x | Raise _ => PNone end.

(* map a function over the leaves of a ui.json-shaped value: dictionaries at any depth, lists (and, for demote, tuples,
   which become lists) one level deep *)
Fixpoint tmap (g : pv -> pv) (v : pv) : pv :=
  match v with
  | PDict d => PDict (map (fun kv => (fst kv, tmap g (snd kv))) d)
  | PList l | PTuple l => PList (map g l)
  | a => g a
  end.

(* ui.json-shaped: nested dictionaries with distinct string keys whose other members are leaves satisfying L or lists
   (tuples when [tup]) of such leaves *)
Fixpoint tshape (tup : bool) (L : pv -> bool) (v : pv) : bool :=
  match v with
  | PDict d => forallb (fun kv => is_pstr (fst kv) && tshape tup L (snd kv)) d && keys_distinct (map fst d)
  | PList l => forallb (fun x => is_atom x && L x) l
  | PTuple l => tup && forallb (fun x => is_atom x && L x) l
  | a => is_atom a && L a
  end.

Definition is_ok {A} (m : res A) : bool := match m with Ok _ => true | Raise _ => false end.

(* every nested dictionary (not the top level) passes InputFile.ui_validation, as numify requires *)
Fixpoint forms_pass (top : bool) (v : pv) : bool :=
  match v with
  | PDict d => (top || is_ok (ui_validation_with ui_validations_table v)) && forallb (fun kv => forms_pass false (snd kv)) d
  | _ => true
  end.

(* what is on disk, and what the reader returns: leaf by leaf *)
Definition text_leaf (a : pv) : pv := unwrap write_funs (unwrap demote_funs a).
Definition text_tree (v : pv) : pv := tmap text_leaf v.
Definition canon_tree (v : pv) : pv := tmap canon v.

(* write_ui_json's codec followed by the reader's: demote, stringify, json, numify *)
Definition file_trip (fuel : nat) (ui : pv) : res pv :=
  d <- InputFile_demote fuel ui ;; s <- InputFile_stringify fuel d ;; j <- json_roundtrip s ;; InputFile_numify fuel j.
