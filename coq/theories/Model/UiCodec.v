(* UiCodec — hand-written parts of the ui.json write/read pipeline (property C14).  Definitions only.

   PyLite output used here: demote, stringify, numify (PyLite_InputFile.v), dict_mapper and the mappers
   (PyLite_SharedUtils.v), flatten, collect, find_all, dependency_requires_value, requires_value (PyLite_UiUtils.v).
   Hand-transcribed here (aliasing / self / libraries):
     json.dump + json.load                       json_roundtrip
     shared.utils.uuid2entity, InputFile.{_uid_promotion, promote}
     ui_json.utils.set_enabled, InputFile.update_ui_values   (mutation through aliases of the form dictionaries)
     InputFile.{ui_json setter, data getter/setter, write_ui_json, read_ui_json}  with validate=False
   The workspace is a [world] (Model/Enforcers.v); a Workspace object is the token of its path. *)
From Coq Require Import String.
From GV Require Import Prelude.Base Model.PyVal Model.Enforcers Model.UiForms.
From GVgen Require Import PyLite_SharedUtils PyLite_UiUtils PyLite_Validators Table_UiValidations PyLite_InputFile.
Local Open Scope string_scope.

(* ------------------------------------------------------------------ json.dump ; json.load *)
(* Python's json writes tuples as arrays, keeps int / float / str / bool / None, writes non-finite floats as the
   non-standard tokens Infinity / NaN (allow_nan=True) and reads them back; anything else is not serialisable. *)
Fixpoint json_roundtrip (v : pv) : res pv :=
  let fix go_list (l : list pv) : res (list pv) :=
    match l with
    | [] => Ok []
    | x :: r => y <- json_roundtrip x ;; ys <- go_list r ;; Ok (y :: ys)
    end in
  let fix go_dict (d : list (pv * pv)) : res (list (pv * pv)) :=
    match d with
    | [] => Ok []
    | (PStr s, x) :: r => y <- json_roundtrip x ;; ys <- go_dict r ;; Ok ((PStr s, y) :: ys)
    | _ :: _ => Raise TypeError                   (* non-string keys are outside the modelled fragment *)
    end in
  match v with
  | PNone | PBool _ | PInt _ | PStr _ => Ok v
  | PFloat (FNaN _) => Ok (PFloat (FNaN false))
  | PFloat _ => Ok v
  | PList l | PTuple l => l' <- go_list l ;; Ok (PList l')
  | PDict d => d' <- go_dict d ;; Ok (PDict d')
  | PUuid _ | PEnt _ _ | PWs _ | PType _ => Raise TypeError
  end.

(* the text on disk contains a token that is not JSON (Infinity, -Infinity, NaN) *)
Fixpoint has_nonfinite (v : pv) : bool :=
  match v with
  | PFloat (FFin _ _) => false
  | PFloat _ => true
  | PList l | PTuple l => existsb has_nonfinite l
  | PDict d => existsb (fun kv => has_nonfinite (snd kv)) d
  | _ => false
  end.

(* ------------------------------------------------------------------ promotion *)
(* shared.utils.uuid2entity *)
Definition uuid2entity (W : world) (v : pv) : pv :=
  match v with
  | PUuid u => match w_kind W u with Some k => PEnt k u | None => PNone end
  | _ => v
  end.
(* InputFile._uid_promotion (self._geoh5 is the world workspace) *)
Definition uid_promotion (W : world) (validate : bool) (key value : pv) : res pv :=
  match value with
  | PUuid _ =>
      _ <- (if validate then AssociationValidator_validate W key value (PWs "WORLD") else Ok PNone) ;;
      Ok (uuid2entity W value)
  | _ => Ok value
  end.
(* InputFile.promote: dictionaries recursively, lists element-wise, everything else directly *)
Fixpoint promote (fuel : nat) (W : world) (validate : bool) (var : pv) : res pv :=
  match fuel with
  | O => Raise OutOfFuel
  | S fuel =>
      match var with
      | PDict d =>
          d' <- map_res (fun kv =>
                  match snd kv with
                  | PDict _ => x <- promote fuel W validate (snd kv) ;; Ok (fst kv, x)
                  | PList l => l' <- map_res (uid_promotion W validate (fst kv)) l ;; Ok (fst kv, PList l')
                  | x => y <- uid_promotion W validate (fst kv) x ;; Ok (fst kv, y)
                  end) d ;;
          Ok (PDict d')
      | _ => Raise AttributeError
      end
  end.

(* ------------------------------------------------------------------ set_enabled, update_ui_values *)
Definition set_member (ui key member value : pv) : res pv :=
  form <- getitem ui key ;; form' <- setitem form member value ;; setitem ui key form'.

(* ui_json.utils.set_enabled(ui_json, parameter, value): the group loop writes through the aliases of the forms *)
Definition set_enabled (ui p value : pv) : res pv :=
  form <- getitem ui p ;;
  opt <- dict_get form (PStr "optional") (PBool false) ;;
  ui <- (if truthy opt then set_member ui p (PStr "enabled") value else Ok ui) ;;
  form <- getitem ui p ;;
  gname <- dict_get form (PStr "group") (PBool false) ;;
  '(ui, is_go) <-
     (if truthy gname then
        group <- collect ui (PStr "group") gname ;;
        params <- find_all group (PStr "groupOptional") PNone ;;
        match params with
        | PList (k0 :: _) =>
            if py_eq k0 p then
              keys <- dict_keys group ;;
              ui' <- fold_res (fun u k => set_member u k (PStr "enabled") value) keys ui ;;
              Ok (ui', true)
            else Ok (ui, true)
        | _ => Ok (ui, false)
        end
      else Ok (ui, false)) ;;
  form <- getitem ui p ;;
  has_dep <- contains (PStr "dependency") form ;;
  _ <- (if negb is_go && has_dep then dependency_requires_value ui p else Ok PNone) ;;   (* only its exceptions matter *)
  Ok ui.

(* InputFile.update_ui_values(data) with validation_options["update_enabled"] = upd *)
Definition update_ui_values (upd : bool) (ui data : pv) : res pv :=
  items <- dict_items data ;;
  fold_res (fun ui '(key, value) =>
     cur <- getitem ui key ;;
     if isinst cur [TDict] then
       enabled <- dict_get cur (PStr "enabled") PNone ;;
       ui <- (if negb (is_none enabled)
              then set_enabled ui key (if upd then PBool (negb (is_none value)) else enabled)
              else Ok ui) ;;
       cur <- getitem ui key ;;
       has_iv <- contains (PStr "isValue") cur ;;
       let to_prop := has_iv && isinst value [TEntity; TUuid] in
       ui <- (if has_iv then set_member ui key (PStr "isValue") (PBool (negb to_prop)) else Ok ui) ;;
       cur <- getitem ui key ;;
       en <- dict_get cur (PStr "enabled") (PBool false) ;;
       if is_none value && negb (truthy en) then Ok ui
       else set_member ui key (PStr (if to_prop then "property" else "value")) value
     else setitem ui key value) items ui.

(* ------------------------------------------------------------------ InputFile with validate=False, promotion=True *)
(* InputValidation.infer_validations runs in the ui_json setter whatever `validate` says: only its exceptions matter
   here (requires_value is called for every dictionary parameter) *)
Definition infer_raises (ui : pv) : res pv :=
  items <- dict_items ui ;;
  _ <- fold_res (fun (_ : unit) '(key, item) =>
         if isinst item [TDict] then _ <- requires_value ui key ;; Ok tt else Ok tt) items tt ;;
  Ok PNone.

(* InputFile(ui_json=ui, validate=False): the ui_json setter *)
Definition if_set_ui (fuel : nat) (ui : pv) : res pv :=
  ui' <- InputFile_numify fuel ui ;;
  _ <- infer_raises ui' ;;
  Ok ui'.

(* the geoh5 setter as reached from the data setter: None is ignored, anything but a Workspace is refused *)
Definition geoh5_ok (data : pv) : res bool :=
  has <- contains (PStr "geoh5") data ;;
  if has then
    g <- getitem data (PStr "geoh5") ;;
    match g with PNone => Ok false | PWs _ => Ok true | _ => Raise ValueError end
  else Ok false.

(* `.data` read for the first time: flatten, promote (when a workspace is known), update_ui_values without touching
   the enabled members; returns (ui_json afterwards, data) *)
Definition if_data (fuel : nat) (W : world) (ui : pv) : res (pv * pv) :=
  flat <- flatten ui ;;
  has_ws <- geoh5_ok flat ;;
  data <- (if has_ws then promote fuel W false flat else Ok flat) ;;
  ui' <- update_ui_values false ui data ;;
  Ok (ui', data).

(* write_ui_json: update_ui_values(self.data) with update_enabled as configured (True), then demote, stringify, json *)
Definition if_write (fuel : nat) (ui data : pv) : res (pv * pv) :=
  ui' <- update_ui_values true ui data ;;
  dem <- InputFile_demote fuel ui' ;;
  txt <- InputFile_stringify fuel dem ;;
  Ok (ui', txt).

(* the whole trip: construct, read .data, write, json, read back, read .data *)
Record trip := { t_ui0 : pv; t_data0 : pv; t_ui_written : pv; t_json : pv; t_ui1 : pv; t_data1 : pv }.

Definition round_trip (fuel : nat) (W : world) (ui_in : pv) : res trip :=
  ui0 <- if_set_ui fuel ui_in ;;
  '(ui0, d0) <- if_data fuel W ui0 ;;
  '(uiw, txt) <- if_write fuel ui0 d0 ;;
  j <- json_roundtrip txt ;;
  ui1 <- if_set_ui fuel j ;;
  '(ui1, d1) <- if_data fuel W ui1 ;;
  Ok {| t_ui0 := ui0; t_data0 := d0; t_ui_written := uiw; t_json := j; t_ui1 := ui1; t_data1 := d1 |}.
