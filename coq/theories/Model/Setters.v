(* C03 — generic model of write-through property setters.

   An entity is [mem] (the private backing fields) plus [sto] (what the file reflects for each field) and the
   [onf] flag (Workspace.update_attribute is a no-op unless entity.on_file).  A setter is a table row extracted from
   the source (generated/Tables_C03.v): paths of events.  [flat] inlines calls (virtual calls are resolved per
   concrete class, label -> fields routing per class comes from the extracted update_field dispatch/attribute maps)
   and yields paths over

       FStore f | FPersist fields | FPersistAll | FBad          (simple events)
       L bodies                                                 (a loop: any number of iterations, any body each)

   [fp_ok watch p] is the boolean analysis: every store to a watched field is followed by a persistence call that
   routes that field, on every unrolling.  Definitions only (the case files import this file). *)
From GV Require Import Prelude.Base.
From Coq Require Import String.

Definition fld := N.

(* ------------------------------------------------------------------ table rows (what the extractor emits) *)
Inductive sev :=
| SStore (f : fld)          (* self._f = ... / self._f.update(...) / self._f[k] = ... *)
| SPersist (l : N)          (* <ws>.update_attribute(self, "<label>") *)
| SPersistAll               (* <ws>.save_entity(self) *)
| SPersistPG                (* <ws>.add_or_update_property_group(self) *)
| SCall (n : N)             (* self.m(...) or self.x = ...  : resolved per concrete class *)
| SCallF (g : N)            (* super(A, B).x.fset(self, v) : static *)
| SBad.                     (* a shape the extractor does not understand *)

Inductive ev := E (s : sev) | Loop (bodies : list (list sev)).

Record path := { p_ev : list ev; p_none : bool (* taken only when the assigned value is None *) }.

Record func := { f_id : N; f_name : string; f_loc : string; f_paths : list path }.

Record cls := {
  c_id : N; c_name : string;
  c_onfile : bool;                                  (* instances have an [on_file] attribute *)
  c_resolve : list (N * N);                         (* virtual name -> function id *)
  c_routes : list (N * option (list fld));          (* label -> fields written (None: the call raises) *)
  c_guards : list (N * fld);                        (* label -> field g: the writer obtains the value through a getter
                                                       that re-fetches g from the file under a key the setters can
                                                       change; the call writes only if g is in memory *)
  c_pg : list fld;                                  (* fields written by add_or_update_property_group *)
  c_watch : list fld                                (* fields read by the getters of the assignable attributes *)
}.

Record pair := {
  q_cls : N; q_cname : string; q_attr : string;
  q_name : string;                                  (* "DefiningClass.attribute" of the resolved setter *)
  q_fid : N;
  q_own : list fld;                                 (* fields the attribute's getter reads *)
  q_scope : bool;
  q_kind : string                                   (* object | group | concatenator | data | type | other *)
}.

(* a listed name is "Class.attribute" (every class that inherits the setter), "Class.attribute@kind" or
   "Class.attribute@ConcreteClass" *)
Definition listed_as (listed : list string) (q : pair) : bool :=
  existsb (String.eqb (q_name q)) listed
  || existsb (String.eqb (String.append (q_name q) (String.append "@"%string (q_kind q)))) listed
  || existsb (String.eqb (String.append (q_name q) (String.append "@"%string (q_cname q)))) listed.

(* ------------------------------------------------------------------ flattened paths *)
Inductive fe := FStore (f : fld) | FPersist (fs : list fld) | FPersistAll | FBad
              | FPersistIf (g : fld) (fs : list fld).   (* guarded persistence call whose guard is not known stored: writes nothing *)
Inductive fx := X (e : fe) | L (bodies : list (list fe)).

Definition memN (x : N) (l : list N) : bool := existsb (N.eqb x) l.

Fixpoint assocN {A} (k : N) (l : list (N * A)) : option A :=
  match l with [] => None | (k', v) :: r => if N.eqb k k' then Some v else assocN k r end.

Fixpoint find_func (T : list func) (g : N) : option func :=
  match T with [] => None | f :: r => if N.eqb (f_id f) g then Some f else find_func r g end.

Fixpoint find_cls (C : list cls) (i : N) : option cls :=
  match C with [] => None | c :: r => if N.eqb (c_id c) i then Some c else find_cls r i end.

Definition alts := list (list fx).
Definition seq_alts (a b : alts) : alts := flat_map (fun x => map (fun y => x ++ y) b) a.

(* a loop body that itself contains a loop (reached through a call) is over-approximated by a flat loop whose bodies
   are the segments between the inner loops and the inner bodies: every real execution is an unrolling of it *)
Fixpoint segs (p : list fx) (cur : list fe) : list (list fe) :=
  match p with
  | [] => [rev cur]
  | X e :: r => segs r (e :: cur)
  | L bs :: r => rev cur :: bs ++ segs r []
  end.

(* [only_some]: keep the paths taken for a non-None value (used for the comparison with the harness, which never
   assigns None); the theorems use [false] = every path. *)
Fixpoint flat (fuel : nat) (T : list func) (c : cls) (nonnone : bool) (g : N) : alts :=
  match fuel with
  | O => [[X FBad]]
  | S n =>
    let fs (s : sev) : alts :=
      match s with
      | SStore f => [[X (FStore f)]]
      | SPersist l =>
          if c_onfile c then
            match assocN l (c_routes c) with
            | Some (Some fields) =>
                match assocN l (c_guards c) with
                | Some g => [[X (FPersistIf g fields)]]
                | None => [[X (FPersist fields)]]
                end
            | Some None => []                              (* KEY_MAP[label] raises: the path ends abnormally *)
            | None => [[X FBad]]
            end
          else []                                          (* entity.on_file raises AttributeError *)
      | SPersistAll => [[X FPersistAll]]
      | SPersistPG => [[X (FPersist (c_pg c))]]
      | SCall nm => match assocN nm (c_resolve c) with Some g' => flat n T c false g' | None => [[X FBad]] end
      | SCallF g' => flat n T c false g'
      | SBad => [[X FBad]]
      end in
    let fev (e : ev) : alts :=
      match e with
      | E s => fs s
      | Loop bodies =>
          [[L (flat_map (fun b => flat_map (fun a => segs a []) (fold_right (fun s acc => seq_alts (fs s) acc) [[]] b)) bodies)]]
      end in
    match find_func T g with
    | None => [[X FBad]]
    | Some fn =>
        flat_map (fun p => if nonnone && p_none p then []
                           else fold_right (fun e acc => seq_alts (fev e) acc) [[]] (p_ev p)) (f_paths fn)
    end
  end.

Definition FUEL : nat := 8.

(* a guarded persistence call is effective when its guard field was stored earlier on the path (worst case otherwise:
   the field is not in memory, the re-fetch under the changed key finds nothing, the routine deletes and returns) *)
Fixpoint resolve_body (stored : list fld) (b : list fe) : list fe :=
  match b with
  | [] => []
  | FStore f :: r => FStore f :: resolve_body (f :: stored) r
  | FPersistIf g fs :: r => (if existsb (N.eqb g) stored then FPersist fs else FPersistIf g fs) :: resolve_body stored r
  | e :: r => e :: resolve_body stored r
  end.

Fixpoint resolve (stored : list fld) (p : list fx) : list fx :=
  match p with
  | [] => []
  | X (FStore f) :: r => X (FStore f) :: resolve (f :: stored) r
  | X (FPersistIf g fs) :: r => X (if existsb (N.eqb g) stored then FPersist fs else FPersistIf g fs) :: resolve stored r
  | X e :: r => X e :: resolve stored r
  | L bs :: r => L (map (resolve_body stored) bs) :: resolve stored r
  end.

(* ------------------------------------------------------------------ the analysis *)
Definition persists (f : fld) (e : fe) : bool :=
  match e with FPersist fs => memN f fs | FPersistAll => true | _ => false end.

Fixpoint later (f : fld) (p : list fx) : bool :=
  match p with [] => false | X e :: r => persists f e || later f r | L _ :: r => later f r end.

(* simple path: every watched store is followed by a persist that routes it *)
Fixpoint sp_ok (watch : list fld) (p : list fe) : bool :=
  match p with
  | [] => true
  | FStore f :: r => (negb (memN f watch) || existsb (persists f) r) && sp_ok watch r
  | FBad :: _ => false
  | _ :: r => sp_ok watch r
  end.

(* a loop body must be self-contained or rely on what follows the loop (another iteration may not happen) *)
Fixpoint body_ok (watch : list fld) (b : list fe) (cont : list fx) : bool :=
  match b with
  | [] => true
  | FStore f :: r => (negb (memN f watch) || existsb (persists f) r || later f cont) && body_ok watch r cont
  | FBad :: _ => false
  | _ :: r => body_ok watch r cont
  end.

Fixpoint fp_ok (watch : list fld) (p : list fx) : bool :=
  match p with
  | [] => true
  | X (FStore f) :: r => (negb (memN f watch) || later f r) && fp_ok watch r
  | X FBad :: _ => false
  | X _ :: r => fp_ok watch r
  | L bs :: r => forallb (fun b => body_ok watch b r) bs && fp_ok watch r
  end.

(* the path touches the attribute: it stores one of the fields its getter reads, or persists one of them *)
Definition touches (own : list fld) (e : fe) : bool :=
  match e with
  | FStore f => memN f own
  | FPersist fs => existsb (fun f => memN f own) fs
  | FPersistAll => true
  | FBad => false
  | FPersistIf _ fs => existsb (fun f => memN f own) fs
  end.

Fixpoint stores_in (own : list fld) (p : list fx) : bool :=
  match p with
  | [] => false
  | X e :: r => touches own e || stores_in own r
  | L bs :: r => existsb (existsb (touches own)) bs || stores_in own r
  end.

Definition pair_paths_raw (T : list func) (C : list cls) (nonnone : bool) (q : pair) : alts :=
  match find_cls C (q_cls q) with None => [[X FBad]] | Some c => flat FUEL T c nonnone (q_fid q) end.

Definition pair_paths (T : list func) (C : list cls) (nonnone : bool) (q : pair) : alts :=
  map (resolve []) (pair_paths_raw T C nonnone q).

Definition pair_watch (C : list cls) (q : pair) : list fld :=
  match find_cls C (q_cls q) with None => [] | Some c => c_watch c end.

(* safe: no normally-ending path loses a store;  live: some normally-ending path stores the attribute *)
Definition pair_safe T C q : bool := forallb (fp_ok (pair_watch C q)) (pair_paths T C false q).
Definition pair_live T C q : bool := existsb (stores_in (q_own q)) (pair_paths T C false q).
(* the fields that represent the attribute: those its getter reads and its setter stores (if the setter stores none of
   them - it mutates through an alias - every field the getter reads) *)
Definition stores_of (p : list fx) : list fld :=
  flat_map (fun x => match x with
                     | X (FStore f) => [f]
                     | X _ => []
                     | L bs => flat_map (flat_map (fun e => match e with FStore f => [f] | _ => [] end)) bs
                     end) p.

Definition pair_backing T C (q : pair) : list fld :=
  let st := flat_map stores_of (pair_paths T C false q) in
  match filter (fun f => memN f st) (q_own q) with [] => q_own q | l => l end.

(* persistable: some representing field is written by some persistence call of the class at all *)
Definition pair_persistable T (C : list cls) (q : pair) : bool :=
  existsb (fun f => memN f (pair_watch C q)) (pair_backing T C q).
Definition pair_ok T C q : bool := pair_safe T C q && pair_live T C q && pair_persistable T C q.

(* ------------------------------------------------------------------ semantics *)
(* [nrule]/[wsname]: H5Writer.fetch_handle returns the *project* node for anything whose name equals the project's
   name; an entity that carries that name is written elsewhere (the table says whether the rule is in the source). *)
Record ent := { mem : fld -> N; sto : fld -> N; onf : bool; nrule : bool; wsname : N }.

Definition NAME : fld := 0%N.                       (* the extractor gives the field "_name" the identifier 0 *)

(* the persistence call reaches the entity's own node *)
Definition handle_ok (e : ent) : bool := negb (nrule e && N.eqb (mem e NAME) (wsname e)).

Definition upd (m : fld -> N) (f : fld) (v : N) : fld -> N := fun g => if N.eqb g f then v else m g.

Definition step (e : ent) (x : fe) (v : N) : ent :=
  match x with
  | FStore f => {| mem := upd (mem e) f v; sto := sto e; onf := onf e; nrule := nrule e; wsname := wsname e |}
  | FPersist fs =>
      if onf e && handle_ok e
      then {| mem := mem e; sto := fun g => if memN g fs then mem e g else sto e g; onf := true; nrule := nrule e; wsname := wsname e |}
      else e
  | FPersistAll =>
      if onf e && handle_ok e then {| mem := mem e; sto := mem e; onf := true; nrule := nrule e; wsname := wsname e |} else e
  | FBad => e
  | FPersistIf _ _ => e
  end.

(* the k-th event of the path stores the token [vals k]: unbounded in values *)
Fixpoint run (p : list fe) (k : nat) (vals : nat -> N) (e : ent) : ent :=
  match p with [] => e | x :: r => run r (S k) vals (step e x (vals k)) end.

Definition in_sync (watch : list fld) (e : ent) : Prop := forall f, In f watch -> mem e f = sto e f.
Definition in_syncb (watch : list fld) (e : ent) : bool := forallb (fun f => N.eqb (mem e f) (sto e f)) watch.

(* unrollings of a loop path *)
Inductive unroll : list fx -> list fe -> Prop :=
| un_nil : unroll [] []
| un_x : forall e r q, unroll r q -> unroll (X e :: r) (e :: q)
| un_done : forall bs r q, unroll r q -> unroll (L bs :: r) q
| un_iter : forall bs b r q, In b bs -> unroll (L bs :: r) q -> unroll (L bs :: r) (b ++ q).

(* index of the last store to f, counting events from k *)
Fixpoint last_store (f : fld) (p : list fe) (k : nat) : option nat :=
  match p with
  | [] => None
  | x :: r => match last_store f r (S k) with
              | Some i => Some i
              | None => match x with FStore g => if N.eqb f g then Some k else None | _ => None end
              end
  end.

(* ------------------------------------------------------------------ executable witnesses of loss *)
Definition e0 : ent := {| mem := fun _ => 0%N; sto := fun _ => 0%N; onf := true; nrule := false; wsname := 0%N |}.

(* the values stored never collide with the project's name (hypothesis of the soundness theorems) *)
Definition name_safe (e : ent) (vals : nat -> N) : Prop :=
  nrule e = false \/ (mem e NAME <> wsname e /\ forall k, vals k <> wsname e).

(* witness for the name rule: an on-file, in-sync entity in a project called 7, and every stored value is 7 *)
Definition e_ws : ent := {| mem := fun _ => 0%N; sto := fun _ => 0%N; onf := true; nrule := true; wsname := 7%N |}.
Definition vals_ws (_ : nat) : N := 7%N.
Definition vals0 (k : nat) : N := N.of_nat (S k).

(* unroll every loop 0 times / once with each body: enough to exhibit a loss *)
Fixpoint unroll01 (p : list fx) : list (list fe) :=
  match p with
  | [] => [[]]
  | X e :: r => map (cons e) (unroll01 r)
  | L bs :: r => unroll01 r ++ flat_map (fun b => map (app b) (unroll01 r)) bs
  end.

Definition no_bad (p : list fe) : bool := forallb (fun e => match e with FBad => false | _ => true end) p.

Definition lost_fields (watch : list fld) (p : list fe) : list fld :=
  filter (fun f => negb (N.eqb (mem (run p 0 vals0 e0) f) (sto (run p 0 vals0 e0) f))) watch.

Definition path_loses (watch : list fld) (p : list fe) : bool :=
  no_bad p && negb (in_syncb watch (run p 0 vals0 e0)).

(* fields whose synchronisation is inspected for a pair: the file-backed fields of the class; for an attribute none of
   whose fields is file-backed, its own fields (a store to them can never reach the file) *)
Definition check_fields T (C : list cls) (q : pair) : list fld :=
  pair_watch C q ++ (if pair_persistable T C q then [] else pair_backing T C q).

Definition pair_lost T C q : bool :=
  existsb (fun p => existsb (path_loses (check_fields T C q)) (unroll01 p)) (pair_paths T C false q).

(* refused: no normally-ending path stores the attribute at all *)
Definition pair_refused T C q : bool := negb (pair_live T C q).

(* ------------------------------------------------------------------ comparison with the harness *)
Definition find_pair (P : list pair) (cn an : string) : option pair :=
  find (fun q => String.eqb (q_cname q) cn && String.eqb (q_attr q) an) P.

Fixpoint combos {A} (ls : list (list A)) : list (list A) :=
  match ls with [] => [[]] | l :: r => flat_map (fun x => map (cons x) (combos r)) l end.

(* steps: attributes assigned in order with the observation "the assignment raised";
   lost: the attributes whose live value after the assignments differs from the value re-read from the file.
   The model runs the non-None paths of the setters in sequence (a later persistence call may flush an earlier
   unpersisted store):  an attribute whose fields are lost on every combination of paths must be observed lost;
   an attribute observed lost must be lost on some combination. *)
Definition must_raise T C q : bool :=
  match pair_paths T C true q with [] => true | _ => false end.

(* the guards are resolved on the whole sequence: a field stored by an earlier setter of the session is in memory *)
Definition seq_paths T C (qs : list pair) : list (list fe) :=
  flat_map (fun ps => unroll01 (resolve [] (List.concat ps))) (combos (map (pair_paths_raw T C true) qs)).

Definition attr_lost_on T (C : list cls) (q : pair) (b : pair) (narrow : bool) (p : list fe) : bool :=
  existsb (fun f => memN f (lost_fields (pair_watch C q) p)) (if narrow then pair_backing T C b else q_own b)
  || (negb (pair_persistable T C b) && existsb (fun e => match e with FStore f => memN f (pair_backing T C b) | _ => false end) p).

Definition check_case (T : list func) (C : list cls) (P : list pair)
           (cn : string) (steps : list (string * bool)) (lost : list string) (snap : list string) : bool :=
  match fold_right (fun s acc => match acc, find_pair P cn (fst s) with
                                 | Some l, Some q => Some (q :: l) | _, _ => None end) (Some []) steps with
  | None => false                                     (* the harness assigned an attribute the table does not know *)
  | Some qs =>
      if existsb snd steps then
        (* some assignment raised (validation is not modelled): a setter the model says cannot end normally must raise *)
        forallb (fun sq => implb (must_raise T C (snd sq)) (snd (fst sq))) (combine steps qs)
      else
        match qs with
        | [] => true
        | q0 :: _ =>
          (* paths with a shape the extractor refuses (they already fail the table theorem) are not predictions *)
          let paths := filter no_bad (seq_paths T C qs) in
          negb (existsb (fun q => must_raise T C q) qs) &&
          negb (match paths with [] => true | _ => false end) &&
          forallb (fun bn =>
            match find_pair P cn bn with
            | None => false
            | Some b =>
                let obs := existsb (String.eqb bn) lost in
                let may := existsb (attr_lost_on T C q0 b false) paths in
                let must := forallb (attr_lost_on T C q0 b true) paths in
                let assigned := existsb (fun s => String.eqb (fst s) bn) steps in
                (* "must" only for the assigned attributes: two attributes kept in one field (a metadata dictionary)
                   are not distinguished by the model *)
                (implb obs may) && (implb (assigned && must) obs)
            end) snap
        end
  end.

(* assigning the project's own name: with the fetch_handle rule in the source every non-None path of the name setter
   must lose the name (and everything assigned afterwards); without the rule nothing is lost *)
Definition check_wsname (T : list func) (C : list cls) (P : list pair) (rule : bool) (cn : string) (observed_lost : bool) : bool :=
  match find_pair P cn "name" with
  | None => false
  | Some q =>
      let e := {| mem := fun _ => 0%N; sto := fun _ => 0%N; onf := true; nrule := rule; wsname := 7%N |} in
      let paths := flat_map unroll01 (pair_paths T C true q) in
      let lost p := negb (N.eqb (mem (run p 0 vals_ws e) NAME) (sto (run p 0 vals_ws e) NAME)) in
      match paths with
      | [] => false
      | _ => if observed_lost then forallb lost paths || negb (pair_ok T C q) else negb (existsb lost paths)
      end
  end.
