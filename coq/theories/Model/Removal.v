(* Model of entity removal (property C05): the in-memory tree, the per-object property-group lists, the workspace
   registry keys, the caller's references and what a raw HDF5 dump of the file shows.  Definitions only.

   Python transcribed (pinned tree):
     Workspace.remove_entity / remove_recursively / remove_children / remove_none_referents(_, rtype) / get_entity(uid)
     EntityContainer.remove_children            (groups: `self._children = [c for c in self._children if c not in children]`, a NEW list)
     ObjectBase.remove_children / remove_property_group / remove_data_from_groups   (in-place `.remove`)
     PropertyGroup.remove_properties / add_properties ; ObjectBase.add_children / add_data_to_group
     H5Writer.remove_child / remove_entity / add_or_update_property_group(remove=...) ; the creation path of
     Workspace.create_entity as far as it touches children lists, registries, flat nodes and child links.

   Entities are numbered by creation (0 = the root group).  Identifiers are never reused in this model (C06 covers that).
   Liveness: the caller (the driver) holds a strong reference to every entity it created until a Drop, which forgets
   the entities that are no longer attached to the root and runs the collector; so "alive" = member of [held].

   The two loops whose iteration order matters are parametrised by [cfg] (read off the source on every run by
   tools/props/c05.py into generated/C05Cfg.v):
     snap_pg = false : `for property_group in self._property_groups:`   (pinned tree; the body deletes from that list)
     snap_pg = true  : `for property_group in list(self._property_groups):`
     snap_ch = false : `for child in entity.children:` in remove_recursively (pinned; objects shrink that list in place)
     snap_ch = true  : `for child in list(entity.children):`
     pg_list_ok = false : ws.property_groups raises KeyError once a property group is dead (pinned H5Writer.remove_entity
                          opens the flat container "PropertyGroups", which does not exist)
     pg_list_ok = true  : H5Writer.remove_entity returns when the container is missing; the dead keys are dropped
                          (fixes/C05-pg-listing.patch; found by a behavioural probe of the checked tree on every run)   *)
From GV Require Import Prelude.Base Model.PGroups.

Inductive kind := KGroup | KObject | KData | KPG.
Definition kind_eqb (a b : kind) : bool :=
  match a, b with KGroup, KGroup | KObject, KObject | KData, KData | KPG, KPG => true | _, _ => false end.

(* Ok; Refused = UserWarning of the allow_delete gate; Fuel = recursion/iteration bound exhausted (never, see proofs);
   BadOp = the history applies an operation to something that is not in the tree / not of the right kind;
   ErrKey = KeyError from H5Writer.remove_entity(_, "PropertyGroups") (there is no such flat container);
   Found / NotFound = result of a lookup by identifier *)
Inductive outcome := Ok | Refused | Fuel | BadOp | ErrKey | Found | NotFound.
Definition outcome_code (o : outcome) : nat :=
  match o with Ok => 0 | Refused => 1 | Fuel => 7 | BadOp => 8 | ErrKey => 2 | Found => 3 | NotFound => 4 end.

Record cfg := { snap_pg : bool; snap_ch : bool; pg_list_ok : bool }.
Definition pinned : cfg := {| snap_pg := false; snap_ch := false; pg_list_ok := false |}.
Definition repaired : cfg := {| snap_pg := true; snap_ch := true; pg_list_ok := true |}.

Record ent := { ekind : kind; par : nat; ch : list nat; pgs : list grp; adel : bool }.

Record st := {
  n : nat;                       (* entities 0 .. n-1 have been created *)
  E : nat -> ent;
  flat : list nat;               (* nodes present in the flat containers Groups / Objects / Data *)
  links : list (nat * nat);      (* (p, c): node p has a hard link to c in its Data / Groups / Objects sub-container *)
  fpg : list grp;                (* PropertyGroups/<g> entry of the node of g's parent, with its Properties attribute *)
  reg : list nat;                (* keys of the workspace registries (the kind of a key is the kind of the entity) *)
  held : list nat }.             (* entities the caller still references *)

Definition set_ch (r : ent) (l : list nat) : ent := {| ekind := ekind r; par := par r; ch := l; pgs := pgs r; adel := adel r |}.
Definition set_pgs (r : ent) (g : list grp) : ent := {| ekind := ekind r; par := par r; ch := ch r; pgs := g; adel := adel r |}.
Definition set_adel (r : ent) (b : bool) : ent := {| ekind := ekind r; par := par r; ch := ch r; pgs := pgs r; adel := b |}.

Definition upd (w : st) (x : nat) (f : ent -> ent) : st :=
  {| n := n w; E := fun y => if Nat.eqb y x then f (E w y) else E w y;
     flat := flat w; links := links w; fpg := fpg w; reg := reg w; held := held w |}.
Definition set_file (w : st) (fl : list nat) (lk : list (nat * nat)) (fp : list grp) : st :=
  {| n := n w; E := E w; flat := fl; links := lk; fpg := fp; reg := reg w; held := held w |}.
Definition set_reg_held (w : st) (rg hl : list nat) : st :=
  {| n := n w; E := E w; flat := flat w; links := links w; fpg := fpg w; reg := rg; held := hl |}.

Definition link_eqb (a b : nat * nat) : bool := Nat.eqb (fst a) (fst b) && Nat.eqb (snd a) (snd b).
Definition neqb (a b : nat) : bool := negb (Nat.eqb a b).

(* ---------------- file primitives ---------------- *)
(* H5Writer.remove_child(uid, ref_type, parent): nothing when the parent has no node; else unlink *)
Definition del_link (w : st) (p c : nat) : st :=
  if memb p (flat w) then set_file w (flat w) (filter (fun l => negb (link_eqb l (p, c))) (links w)) (fpg w) else w.
(* H5Writer.remove_entity(uid, ref_type): delete the entry of the flat container *)
Definition del_flat (w : st) (e : nat) : st := set_file w (filter (neqb e) (flat w)) (links w) (fpg w).
(* H5Writer.add_or_update_property_group(pg, remove=True) *)
Definition del_fpg (w : st) (g : nat) : st :=
  if memb (par (E w g)) (flat w) then set_file w (flat w) (links w) (filter (fun p => neqb g (fst p)) (fpg w)) else w.
(* H5Writer.add_or_update_property_group(pg): delete the entry if present, write it again with the current members *)
Definition write_fpg (w : st) (g : nat) (l : list nat) : st :=
  if memb (par (E w g)) (flat w) then set_file w (flat w) (links w) (filter (fun p => neqb g (fst p)) (fpg w) ++ [(g, l)]) else w.

(* ---------------- ObjectBase.remove_children([pg]) for a property group (reached from ws.remove_entity(pg)) ------- *)
Definition remove_pg (w : st) (o g : nat) : st :=
  let r := E w o in
  let w1 :=
    if memb g (ch r) then                                   (* `if child not in self._children: continue` *)
      upd w o (fun r => set_ch (if is_nil (pgs r) then r else set_pgs r (remove_grp g (pgs r)))   (* remove_property_group *)
                               (remove_first g (ch r)))                                            (* self._children.remove(child) *)
    else w in
  del_fpg w1 g.                                             (* Workspace.remove_children -> add_or_update_property_group(remove=True) *)

(* ---------------- ObjectBase.remove_data_from_groups(d) ---------------- *)
(* PropertyGroup.remove_properties([d]) on the group at index i of o's list *)
Definition rp_visit (w : st) (o d i g : nat) (l : list nat) : st :=
  let l' := remove_first d l in
  let w1 := upd w o (fun r => set_pgs r (set_nth i (g, l') (pgs r))) in      (* self._properties.remove(elem) *)
  if is_nil l' then remove_pg w1 o g                                          (* workspace.remove_entity(self) *)
  else write_fpg w1 g l'.                                                     (* add_or_update_property_group(self) *)

Fixpoint rdfg_loop (k : nat) (w : st) (o d i : nat) : st :=
  match k with
  | 0 => w
  | S k' =>
      match nth_error (pgs (E w o)) i with
      | None => w
      | Some (g, l) => rdfg_loop k' (rp_visit w o d i g l) o d (S i)
      end
  end.

(* snapshot variant: visit every group of the snapshot, finding it in the current list *)
Definition rp_visit_id (w : st) (o d g : nat) : st :=
  match index_of g (pgs (E w o)) with
  | None => w
  | Some i => match nth_error (pgs (E w o)) i with Some (_, l) => rp_visit w o d i g l | None => w end
  end.

Definition rdfg (c : cfg) (w : st) (o d : nat) : st :=
  let gs := pgs (E w o) in
  if is_nil gs then w                                                          (* `if not self._property_groups: return` *)
  else if snap_pg c then fold_left (fun w g => rp_visit_id w o d g) (map fst gs) w
  else rdfg_loop (length gs) w o d 0.

(* ---------------- ObjectBase.remove_children([c]) / EntityContainer.remove_children([c]) ---------------- *)
Definition object_remove_child (c : cfg) (w : st) (o x : nat) : st :=
  match ekind (E w x) with
  | KPG => remove_pg w o x
  | _ =>
      let w1 :=
        if memb x (ch (E w o)) then
          let w' := match ekind (E w x) with KData => rdfg c w o x | _ => w end in
          upd w' o (fun r => set_ch r (remove_first x (ch r)))
        else w in
      del_link w1 o x
  end.

Definition group_remove_child (w : st) (p x : nat) : st :=
  del_link (upd w p (fun r => set_ch r (filter (neqb x) (ch r)))) p x.

Definition parent_remove_child (c : cfg) (w : st) (p x : nat) : st :=
  match ekind (E w p) with
  | KObject => object_remove_child c w p x
  | _ => group_remove_child w p x
  end.

(* ---------------- Workspace.remove_entity / remove_recursively ---------------- *)
Definition is_ok (o : outcome) : bool := match o with Ok => true | _ => false end.

(* `for child in <list object that nobody mutates>` *)
Fixpoint iter_snapshot (rec : st -> nat -> st * outcome) (w : st) (l : list nat) : st * outcome :=
  match l with
  | [] => (w, Ok)
  | x :: r => let (w1, o) := rec w x in if is_ok o then iter_snapshot rec w1 r else (w1, o)
  end.

(* `for child in entity.children` when the body shrinks entity._children in place: index stepping over the current list *)
Fixpoint iter_inplace (rec : st -> nat -> st * outcome) (k : nat) (w : st) (e i : nat) : st * outcome :=
  match k with
  | 0 => (w, Fuel)
  | S k' =>
      match nth_error (ch (E w e)) i with
      | None => (w, Ok)
      | Some x => let (w1, o) := rec w x in if is_ok o then iter_inplace rec k' w1 e (S i) else (w1, o)
      end
  end.

Fixpoint remove_entity (c : cfg) (f : nat) (w : st) (e : nat) : st * outcome :=
  match f with
  | 0 => (w, Fuel)
  | S f' =>
      let r := E w e in
      if negb (adel r) then (w, Refused) else
      let p := par r in
      let (w1, o1) :=
        match ekind r with
        | KGroup => iter_snapshot (remove_entity c f') w (ch r)
        | KObject => if snap_ch c then iter_snapshot (remove_entity c f') w (ch r)
                     else iter_inplace (remove_entity c f') (S (length (ch r))) w e 0
        | _ => (w, Ok)                                       (* Data and PropertyGroup have no `children` *)
        end in
      if is_ok o1 then
        let w2 := parent_remove_child c w1 p e in
        (match ekind r with KPG => w2 | _ => del_flat w2 e end, Ok)
      else (w1, o1)
  end.

(* ---------------- attachment ---------------- *)
Fixpoint attached_f (f : nat) (w : st) (x : nat) : bool :=
  match f with
  | 0 => false
  | S f' => Nat.eqb x 0 || (memb x (ch (E w (par (E w x)))) && attached_f f' w (par (E w x)))
  end.
Definition attachedb (w : st) (x : nat) : bool := Nat.ltb x (n w) && attached_f (S (n w)) w x.

(* ---------------- histories ---------------- *)
Inductive op :=
| OGroup (p : nat) | OObject (p : nat) | OData (o : nat)
| OPgNew (o : nat) (ds : list nat) | OPgAdd (g : nat) (ds : list nat)
| OAllowDelete (e : nat) (b : bool)
| ORemoveWs (e : nat) | ORemoveParent (e : nat)
| ODrop | OList (k : kind) | OLookup (e : nat)
| ORemoveParentMany (es : list nat).

Definition blank (k : kind) (p : nat) : ent := {| ekind := k; par := p; ch := []; pgs := []; adel := true |}.

Definition init : st :=
  {| n := 1; E := fun _ => blank KGroup 0; flat := [0]; links := []; fpg := []; reg := [0]; held := [0] |}.

(* creation of a group / object / data under p: Entity.__init__ (parent setter appends to p._children, then register),
   then H5Writer.save_entity: flat node + child link *)
Definition create (w : st) (k : kind) (p : nat) : st :=
  let x := n w in
  {| n := S x;
     E := fun y => if Nat.eqb y x then blank k p else if Nat.eqb y p then set_ch (E w p) (ch (E w p) ++ [x]) else E w y;
     flat := flat w ++ [x]; links := links w ++ [(p, x)]; fpg := fpg w;
     reg := reg w ++ [x]; held := held w ++ [x] |}.

(* PropertyGroup.add_properties: append the data that are children of the parent and not yet listed *)
Fixpoint add_props (o_ch : list nat) (isdata : nat -> bool) (l ds : list nat) : list nat :=
  match ds with
  | [] => l
  | d :: r => add_props o_ch isdata (if memb d o_ch && isdata d && negb (memb d l) then l ++ [d] else l) r
  end.

Definition isdata (w : st) (x : nat) : bool := kind_eqb (ekind (E w x)) KData.

Definition fuel_of (w : st) : nat := S (S (n w)).

Definition step (c : cfg) (w : st) (a : op) : st * outcome :=
  match a with
  | OGroup p => if attachedb w p && kind_eqb (ekind (E w p)) KGroup then (create w KGroup p, Ok) else (w, BadOp)
  | OObject p => if attachedb w p && kind_eqb (ekind (E w p)) KGroup then (create w KObject p, Ok) else (w, BadOp)
  | OData o => if attachedb w o && kind_eqb (ekind (E w o)) KObject then (create w KData o, Ok) else (w, BadOp)
  | OPgNew o ds =>
      let l := add_props (ch (E w o)) (isdata w) [] ds in
      if attachedb w o && kind_eqb (ekind (E w o)) KObject && negb (is_nil l) then
        let g := n w in
        let w1 :=
          {| n := S g;
             E := fun y => if Nat.eqb y g then blank KPG o
                           else if Nat.eqb y o then set_pgs (set_ch (E w o) (ch (E w o) ++ [g])) (pgs (E w o) ++ [(g, l)])
                           else E w y;
             flat := flat w; links := links w; fpg := fpg w; reg := reg w ++ [g]; held := held w ++ [g] |} in
        (write_fpg w1 g l, Ok)
      else (w, BadOp)
  | OPgAdd g ds =>
      let o := par (E w g) in
      if attachedb w g && kind_eqb (ekind (E w g)) KPG then
        match index_of g (pgs (E w o)) with
        | Some i =>
            match nth_error (pgs (E w o)) i with
            | Some (_, l0) =>
                let l := add_props (ch (E w o)) (isdata w) l0 ds in
                (write_fpg (upd w o (fun r => set_pgs r (set_nth i (g, l) (pgs r)))) g l, Ok)
            | None => (w, BadOp)
            end
        | None => (w, BadOp)
        end
      else (w, BadOp)
  | OAllowDelete e b =>
      if attachedb w e && negb (kind_eqb (ekind (E w e)) KPG) && negb (Nat.eqb e 0)
      then (upd w e (fun r => set_adel r b), Ok) else (w, BadOp)
  | ORemoveWs e =>
      if attachedb w e && negb (Nat.eqb e 0) then remove_entity c (fuel_of w) w e else (w, BadOp)
  | ORemoveParent e =>
      if attachedb w e && negb (Nat.eqb e 0) then (parent_remove_child c w (par (E w e)) e, Ok) else (w, BadOp)
  | ODrop => (set_reg_held w (reg w) (filter (attachedb w) (held w)), Ok)
  | OList k =>
      (* Workspace.remove_none_referents(registry, rtype) behind ws.groups / objects / data / property_groups.
         H5Writer.remove_entity(key, rtype, parent=self) deletes the entry of the flat container and then calls
         remove_child(uid, rtype, parent = the WORKSPACE): fetch_handle answers the base group for it, whose `rtype` member is
         the flat container the entry was just deleted from, so that call never finds anything: flat nodes only. *)
      let dead := filter (fun x => kind_eqb (ekind (E w x)) k && negb (memb x (held w))) (reg w) in
      match k with
      | KPG => if pg_list_ok c then (set_reg_held w (filter (fun x => negb (memb x dead)) (reg w)) (held w), Ok)
               else if is_nil dead then (w, Ok) else (w, ErrKey)
      | _ =>
          let w1 := fold_left del_flat dead w in
          (set_reg_held w1 (filter (fun x => negb (memb x dead)) (reg w1)) (held w1), Ok)
      end
  | OLookup e =>
      (* Workspace.get_entity(uid) -> find_entity -> weakref_utils.get_clean_ref *)
      if Nat.ltb e (n w) then
        if memb e (reg w) then
          if memb e (held w) then (w, Found) else (set_reg_held w (filter (neqb e) (reg w)) (held w), NotFound)
        else (w, NotFound)
      else (w, BadOp)
  | ORemoveParentMany es =>
      (* parent.remove_children([e1; e2; ...]) on the parent p of e1, with several entities (possibly of different kinds):
         EntityContainer / ObjectBase.remove_children take them off the children list, then Workspace.remove_children
         unlinks each one from the container of ITS kind (ref_type = str_from_type(child), per child).
         Entities of the list that are NOT children of p are skipped (object_base.py `if child not in self._children: continue`,
         entity_container.py filter): object_remove_child / group_remove_child leave the records alone and the unlink finds no
         link under p's node.  Outside the model (BadOp): a PROPERTY GROUP of another object in the list: the code skips it in
         memory but Workspace.remove_children still deletes ITS stored record (finding remove-children-foreign-pg, oracle only). *)
      match es with
      | [] => (w, BadOp)
      | e0 :: _ =>
          let p := par (E w e0) in
          if forallb (fun e => attachedb w e && negb (Nat.eqb e 0) &&
                               (Nat.eqb (par (E w e)) p || negb (kind_eqb (ekind (E w e)) KPG))) es
          then (fold_left (fun w e => parent_remove_child c w p e) es w, Ok) else (w, BadOp)
      end
  end.

Fixpoint run (c : cfg) (w : st) (h : list op) : st :=
  match h with
  | [] => w
  | a :: r => run c (fst (step c w a)) r
  end.

(* ---------------- observations (everything listed in increasing identifier order) ---------------- *)
Definition ids (w : st) : list nat := seq 0 (n w).

(* per referenced entity: (id, children, [(group, members)]) *)
Definition obs_mem (w : st) : list (nat * (list nat * list grp)) :=
  map (fun x => (x, (ch (E w x), pgs (E w x)))) (filter (fun x => memb x (held w)) (ids w)).
Definition obs_reg (w : st) : list (nat * bool) :=
  map (fun x => (x, memb x (held w))) (filter (fun x => memb x (reg w)) (ids w)).
Definition obs_flat (w : st) : list nat := filter (fun x => memb x (flat w)) (ids w).
(* child links of the nodes that the flat containers reach *)
Definition vis_link (w : st) (l : nat * nat) : bool := memb (fst l) (flat w).
Definition obs_links (w : st) : list (nat * nat) :=
  flat_map (fun p => map (fun c => (p, c))
                         (filter (fun c => existsb (link_eqb (p, c)) (links w)) (ids w)))
           (obs_flat w).
Definition obs_fpg (w : st) : list grp :=
  flat_map (fun g => match find (fun p => Nat.eqb (fst p) g) (fpg w) with
                     | Some p => if memb (par (E w g)) (flat w) then [p] else []
                     | None => [] end) (ids w).

Record obs := { o_out : nat; o_mem : list (nat * (list nat * list grp)); o_reg : list (nat * bool);
                o_flat : list nat; o_links : list (nat * nat); o_fpg : list grp }.

Definition observe (w : st) (o : outcome) : obs :=
  {| o_out := outcome_code o; o_mem := obs_mem w; o_reg := obs_reg w; o_flat := obs_flat w;
     o_links := obs_links w; o_fpg := obs_fpg w |}.

Fixpoint run_obs (c : cfg) (w : st) (h : list op) : list obs * st :=
  match h with
  | [] => ([], w)
  | a :: r => let (w1, o) := step c w a in let (l, w2) := run_obs c w1 r in (observe w1 o :: l, w2)
  end.

(* what a fresh Workspace(path) shows: the tree loaded by following child links from the root node, with the property
   groups stored on each object's node.  (id, sorted children, [(group, members)] sorted by group) *)
Fixpoint loaded (f : nat) (w : st) (x : nat) : list nat :=
  match f with
  | 0 => []
  | S f' => x :: flat_map (loaded f' w) (filter (fun c => existsb (link_eqb (x, c)) (links w)) (ids w))
  end.
Definition reopen_view (w : st) : list (nat * (list nat * list grp)) :=
  let tree := if memb 0 (flat w) then loaded (S (n w)) w 0 else [] in
  map (fun x => (x, (filter (fun c => existsb (link_eqb (x, c)) (links w)) (ids w),
                      filter (fun p => Nat.eqb (par (E w (fst p))) x) (obs_fpg w))))
      (filter (fun x => memb x tree) (ids w)).

(* ObjectBase.copy of a loaded object succeeds iff every member of every stored group is one of its data children
   (Workspace.copy_property_groups indexes children_map[uid]) *)
Definition copy_ok (w : st) (o : nat) : bool :=
  forallb (fun p => negb (Nat.eqb (par (E w (fst p))) o) ||
                    forallb (fun d => existsb (link_eqb (o, d)) (links w)) (snd p)) (obs_fpg w).

(* ---------------- comparison with the implementation ---------------- *)
(* observations are serialised to flat lists of numbers (length-prefixed), the driver emits the same serialisation;
   this keeps the generated case files small *)
Definition ser_list (l : list nat) : list nat := length l :: l.
Definition ser_grps (gs : list grp) : list nat := length gs :: flat_map (fun p => fst p :: ser_list (snd p)) gs.
Definition ser_mem (rows : list (nat * (list nat * list grp))) : list nat :=
  length rows :: flat_map (fun r => fst r :: ser_list (fst (snd r)) ++ ser_grps (snd (snd r))) rows.
Definition ser_reg (rows : list (nat * bool)) : list nat :=
  length rows :: flat_map (fun r : nat * bool => [fst r; if snd r then 1 else 0]) rows.
Definition ser_links (l : list (nat * nat)) : list nat := length l :: flat_map (fun p : nat * nat => [fst p; snd p]) l.
Definition ser_obs (o : obs) : list nat :=
  o_out o :: ser_mem (o_mem o) ++ ser_reg (o_reg o) ++ ser_list (o_flat o) ++ ser_links (o_links o) ++ ser_grps (o_fpg o).

(* Workspace.close(): `for entity in self.groups:` runs the listing getter of the groups (a sweep of dead group keys);
   H5Writer.save_entity(root, add_children=True) finds every attached entity already stored: no other change *)
Definition close_effect (w : st) : st := fst (step pinned w (OList KGroup)).

(* The per-operation observations are compared through a digest (polynomial hash modulo 2^64 of the
   serialised observation; the driver computes the same digest): a case file then carries one number per operation
   instead of the whole state.  The state after close / re-open and the copy outcomes are compared verbatim. *)
Definition hmask : N := 18446744073709551615%N.
Definition pack (l : list nat) : N := fold_left (fun a x => N.lor (N.shiftl a 8) (N.of_nat x)) l 0%N.
Definition hstep (h : N) (x : N) : N := N.land (h * 6364136223846793005 + x + 1)%N hmask.
(* eight numbers are packed into one word before each mixing step *)
Fixpoint digest_from (h : N) (l : list nat) {struct l} : N :=
  match l with
  | a :: b :: c :: d :: e :: f :: g :: i :: r => digest_from (hstep h (pack [a; b; c; d; e; f; g; i])) r
  | _ => hstep h (pack l)
  end.
Definition digest (l : list nat) : N := digest_from 7%N l.

Definition final_trace (w0 : st) : list nat :=
  let w := close_effect w0 in
  ser_list (obs_flat w) ++ ser_links (obs_links w) ++ ser_grps (obs_fpg w)
  ++ ser_mem (reopen_view w)
  ++ ser_reg (map (fun x => (x, copy_ok w x))
                  (filter (fun x => kind_eqb (ekind (E w x)) KObject) (map fst (reopen_view w)))).

Definition agree (c : cfg) (h : list op) (digests : list N) (final : list nat) : bool :=
  let (l, w0) := run_obs c init h in
  list_eqb N.eqb (map (fun o => digest (ser_obs o)) l) digests
  && list_eqb Nat.eqb (final_trace w0) final.
