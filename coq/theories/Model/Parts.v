(* Model of geoh5py/objects/curve.py : Curve.cells derived from parts, Curve.parts derived from cells (property C17).
   Definitions only; proofs live in Proofs/PartsProofs.v. *)
From GV Require Import Prelude.Base Model.GridIndex.

(* ---------------- cells from parts ---------------- *)
(* np.where(parts == p)[0], offset k *)
Fixpoint pos_from (k : nat) (l : list Z) (p : Z) : list nat :=
  match l with
  | [] => []
  | q :: r => if Z.eqb q p then k :: pos_from (S k) r p else pos_from (S k) r p
  end.

(* np.c_[ind[:-1], ind[1:]]  (np.sort(..., axis=0) is the identity: both columns are increasing) *)
Fixpoint pairs (l : list nat) : list (nat * nat) :=
  match l with
  | [] => []
  | a :: r => match r with [] => [] | b :: _ => (a, b) :: pairs r end
  end.

(* np.unique: sorted, without repeats *)
Fixpoint insert_uniq (x : Z) (l : list Z) : list Z :=
  match l with
  | [] => [x]
  | y :: r => if Z.ltb x y then x :: l else if Z.eqb x y then l else y :: insert_uniq x r
  end.
Definition uniq (l : list Z) : list Z := fold_right insert_uniq [] l.

(* for part_id in unique_parts: ind = where(parts == part_id); cells.append(c_[ind[:-1], ind[1:]]); vstack *)
Definition cells_of_parts (parts : list Z) : list (nat * nat) :=
  flat_map (fun p => pairs (pos_from 0 parts p)) (uniq parts).

(* ---------------- parts from cells ---------------- *)
Fixpoint upd (l : list nat) (i v : nat) : list nat :=
  match l, i with
  | [], _ => []
  | _ :: r, O => v :: r
  | x :: r, S j => x :: upd r j v
  end.

(* the loop body for cell (a, b) = cells[ind], cells[ind-1, 1] = prev:
     if cells[ind, 0] != cells[ind - 1, 1]: count += 1
     parts[cells[ind, :]] = count          (IndexError when an index is out of range) *)
Fixpoint pfc_loop (prev count : nat) (parts : list nat) (cells : list (nat * nat)) : res (list nat) :=
  match cells with
  | [] => Ok parts
  | (a, b) :: r =>
      let count' := if Nat.eqb a prev then count else S count in
      if Nat.ltb a (length parts) && Nat.ltb b (length parts)
      then pfc_loop b count' (upd (upd parts a count') b count') r
      else Err IndexError
  end.

(* parts = np.zeros(n_vertices); for ind in range(1, n_cells): ...   (cell 0 is never visited) *)
Definition parts_of_cells (nv : nat) (cells : list (nat * nat)) : res (list nat) :=
  match cells with
  | [] => Ok (repeat 0 nv)
  | (_, b0) :: r => pfc_loop b0 0 (repeat 0 nv) r
  end.

(* ---------------- vocabulary of the property ---------------- *)
(* segment adjacency and connectivity of the vertex graph *)
Inductive conn (cells : list (nat * nat)) : nat -> nat -> Prop :=
| conn_refl v : conn cells v v
| conn_edge a b : In (a, b) cells -> conn cells a b
| conn_sym v w : conn cells v w -> conn cells w v
| conn_trans u v w : conn cells u v -> conn cells v w -> conn cells u w.

Definition used (cells : list (nat * nat)) (v : nat) : Prop := exists w, In (v, w) cells \/ In (w, v) cells.

(* cells given as vertex-disjoint open chains v0-v1-...-vn (each at least one segment), listed chain after chain *)
Definition chains_ok (nv : nat) (chains : list (list nat)) : Prop :=
  Forall (fun c => 2 <= length c) chains /\ NoDup (concat chains) /\ Forall (fun v => v < nv) (concat chains).
Definition cells_of_chains (chains : list (list nat)) : list (nat * nat) := flat_map pairs chains.

(* ---------------- executable comparison ---------------- *)
Definition cell_eqb (a b : nat * nat) : bool := Nat.eqb (fst a) (fst b) && Nat.eqb (snd a) (snd b).
Definition cells_agree (parts : list Z) (obs : list (nat * nat)) : bool := list_eqb cell_eqb (cells_of_parts parts) obs.
Definition parts_agree (nv : nat) (cells : list (nat * nat)) (obs : res (list nat)) : bool :=
  res_eqb (list_eqb Nat.eqb) (parts_of_cells nv cells) obs.
(* the round trip the API performs: parts set -> cells derived (which drops the stored parts) -> parts re-derived *)
Definition roundtrip_agree (parts : list Z) (obs_cells : list (nat * nat)) (obs_parts : res (list nat)) : bool :=
  cells_agree parts obs_cells && parts_agree (length parts) (cells_of_parts parts) obs_parts.
