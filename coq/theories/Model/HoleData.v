(* Model of the depth / interval data additions of geoh5py/objects/drillhole.py (property C18):
     Drillhole.add_data -> validate_data -> validate_depth_data / validate_interval_data -> add_vertices, sort_depths
     geoh5py/shared/utils.py : match_values, merge_arrays
   Definitions only; proofs live in Proofs/HoleDataProofs.v.

   The position of a depth is the Section variable [pos] (= Drillhole.desurvey for the hole's collar and survey table,
   which do not change while data are added; Model/Desurvey.v is about that function).
   A float NaN is [None].  Vertex / cell data children are kept padded with NaN to the current number of vertices /
   cells (what NumericData.format_length yields whenever the values are read back from the file). *)
From GV Require Import Prelude.Base Model.GridIndex Model.Desurvey.
From Coq Require Import QArith Qabs.
Close Scope Q_scope.

Definition oq : Type := option Q.
Definition oq_eqb (a b : oq) : bool := option_eqb Qeq_bool a b.

(* a <= b in the order np.argsort / np.sort use: NaN last *)
Definition oq_le (a b : oq) : bool :=
  match a, b with
  | Some x, Some y => Qle_bool x y
  | Some _, None => true
  | None, Some _ => false
  | None, None => true
  end.

(* ---------------- np.argsort (stable model: ties keep their order; see notes/C18.md) ---------------- *)
Fixpoint ins (x : nat * oq) (l : list (nat * oq)) : list (nat * oq) :=
  match l with
  | [] => [x]
  | y :: r => if oq_le (snd x) (snd y) then x :: l else y :: ins x r
  end.
Definition isort (l : list (nat * oq)) : list (nat * oq) := fold_right ins [] l.
Definition argsort (v : list oq) : list nat := map fst (isort (combine (seq 0 (length v)) v)).

(* l[idx] for an index array *)
Definition pick {A} (l : list A) (idx : list nat) : list A :=
  flat_map (fun i => match nth_error l i with Some x => [x] | None => [] end) idx.

(* position of v in an index array (np.argsort(sort_ind)[v] for a permutation) *)
Fixpoint index_of (v : nat) (l : list nat) : nat :=
  match l with
  | [] => 0
  | x :: r => if Nat.eqb x v then 0 else S (index_of v r)
  end.

(* ---------------- shared/utils.py ---------------- *)
Definition close (a b tol : Q) : bool := Qltb (Qabs (a - b)) tol.

(* match_values(vec_a, vec_b, collocation_distance): pairs (index in vec_a, index in vec_b) *)
Definition match_values (vec_a : list oq) (vec_b : list Q) (tol : Q) : list (nat * nat) :=
  let n := length vec_a in
  let ind_sort := argsort vec_a in
  let sorted := pick vec_a ind_sort in
  concat (map (fun '(j, b) =>
    (* np.minimum(np.searchsorted(sorted, b, side="right"), n - 1) : NaN sorts last and is never <= b *)
    let ind := Nat.min (length (filter (fun a => match a with Some x => Qle_bool x b | None => false end) sorted)) (n - 1) in
    (* nearests = [ind, ind - 1]; index -1 is the last entry *)
    let prev := match ind with O => n - 1 | S i => i end in
    flat_map (fun c =>
      match nth_error sorted c, nth_error ind_sort c with
      | Some (Some a), Some i => if close a b tol then [(i, j)] else []
      | _, _ => []
      end) [ind; prev])
    (combine (seq 0 (length vec_b)) vec_b)).

Definition mapped (mapping : list (nat * nat)) (j : nat) : bool := existsb (fun p => Nat.eqb (snd p) j) mapping.

(* np.delete(tail, mapping[:, 1]) *)
Definition unmatched {A} (mapping : list (nat * nat)) (tail : list A) : list A :=
  map snd (filter (fun p => negb (mapped mapping (fst p))) (combine (seq 0 (length tail)) tail)).

Fixpoint set_nth {A} (l : list A) (i : nat) (v : A) : list A :=
  match l, i with
  | [], _ => []
  | _ :: r, O => v :: r
  | x :: r, S k => x :: set_nth r k v
  end.

(* head[mapping[:, 0]] = tail[mapping[:, 1]]  (fancy assignment: later rows overwrite earlier ones) *)
Definition assign {A} (head : list A) (mapping : list (nat * nat)) (tail : list A) : list A :=
  fold_left (fun h p => match nth_error tail (snd p) with Some v => set_nth h (fst p) v | None => h end) mapping head.

(* ---------------- np.unique(return_inverse=True) on depths ---------------- *)
Fixpoint insert_uq (x : Q) (l : list Q) : list Q :=
  match l with
  | [] => [x]
  | y :: r => if Qltb x y then x :: l else if Qeq_bool x y then l else y :: insert_uq x r
  end.
Definition uniqQ (l : list Q) : list Q := fold_right insert_uq [] l.
Fixpoint find_q (x : Q) (l : list Q) : nat :=
  match l with
  | [] => 0
  | y :: r => if Qeq_bool x y then 0 else S (find_q x r)
  end.

Fixpoint pair_up (l : list nat) : list (nat * nat) :=      (* .reshape((-1, 2)) *)
  match l with
  | a :: b :: r => (a, b) :: pair_up r
  | _ => []
  end.

Section Hole.
  Variable pos : Q -> V3.

  Record hole := {
    h_verts : list V3;
    h_depth : option (list oq);          (* values of the DEPTH child; None: no such child yet *)
    h_vdata : list (nat * list oq);      (* vertex data children (name, values), in creation order *)
    h_cells : list (nat * nat);
    h_ft : option (list Q * list Q);     (* values of the FROM and TO children *)
    h_cdata : list (nat * list oq)       (* interval data children (name, values) *)
  }.

  Definition empty_hole : hole :=
    {| h_verts := []; h_depth := None; h_vdata := []; h_cells := []; h_ft := None; h_cdata := [] |}.

  Definition pad (n : nat) (v : list oq) : list oq := v ++ repeat None (n - length v).
  Definition pad_all (n : nat) (d : list (nat * list oq)) : list (nat * list oq) := map (fun '(k, v) => (k, pad n v)) d.

  (* ---- validate_depth_data + the creation of the data child ---- *)
  Definition add_depth (h : hole) (name : nat) (depth : list Q) (values : list oq) (tol : Q) : hole :=
    let nv := length (h_verts h) in
    match h_depth h with
    | None =>
        (* self.add_vertices(self.desurvey(depth)); DEPTH = r_[nan * (n_vertices - len(depth)), depth] *)
        let verts := h_verts h ++ map pos depth in
        let n := length verts in
        {| h_verts := verts;
           h_depth := Some (repeat None nv ++ map (@Some Q) depth);
           h_vdata := pad_all n (h_vdata h) ++ [(name, repeat None nv ++ values)];
           h_cells := h_cells h; h_ft := h_ft h; h_cdata := h_cdata h |}
    | Some dv0 =>
        (* repaired (fixes/C18-depth-after-interval-misaligned.patch): self.depths.format_values(self.depths.values), i.e.
           DEPTH padded with NaN to the current number of vertices (vertices appended by an interval data set of the
           same add_data call have no DEPTH entry yet); the unrepaired code used the shorter cached array and wrote
           the new depths next to the wrong vertices *)
        let dv := pad nv dv0 in
        let mapping := match_values dv depth tol in
        let new_depth := unmatched mapping depth in
        let verts := h_verts h ++ map pos new_depth in
        let n := length verts in
        {| h_verts := verts;
           h_depth := Some (dv ++ map (@Some Q) new_depth);
           h_vdata := pad_all n (h_vdata h) ++ [(name, assign (repeat None nv) mapping values ++ unmatched mapping values)];
           h_cells := h_cells h; h_ft := h_ft h; h_cdata := h_cdata h |}
    end.

  (* ---- validate_interval_data + the creation of the data child ---- *)
  Definition flatten_ft (fts : list (Q * Q)) : list Q := flat_map (fun '(f, t) => [f; t]) fts.

  (* np.linalg.norm(elem - out_vec, axis=1) < tol, compared through the squares (tol >= 0) *)
  Definition ft_close (f t f' t' tol : Q) : bool :=
    Qltb ((f - f') * (f - f') + (t - t') * (t - t'))%Q (tol * tol)%Q.

  Fixpoint first_match (f t : Q) (froms tos : list Q) (tol : Q) (k : nat) : option nat :=
    match froms, tos with
    | f' :: rf, t' :: rt => if ft_close f t f' t' tol then Some k else first_match f t rf rt tol (S k)
    | _, _ => None
    end.

  (* dist_match: for each new interval the first existing cell whose (from, to) is within tol: pairs (cell, new index) *)
  Definition cell_map_of (froms tos : list Q) (fts : list (Q * Q)) (tol : Q) : list (nat * nat) :=
    flat_map (fun '(i, (f, t)) => match first_match f t froms tos tol 0 with Some c => [(c, i)] | None => [] end)
             (combine (seq 0 (length fts)) fts).

  Definition add_interval (h : hole) (name : nat) (fts : list (Q * Q)) (values : list oq) (tol : Q) : hole :=
    let nv := length (h_verts h) in
    match h_ft h with
    | None =>
        (* uni, inv = np.unique(from_to, return_inverse=True); cells = add_vertices(desurvey(uni))[inv].reshape(-1, 2) *)
        let flat := flatten_ft fts in
        let uni := uniqQ flat in
        let inv := map (fun x => nv + find_q x uni) flat in
        {| h_verts := h_verts h ++ map pos uni;
           h_depth := h_depth h; h_vdata := h_vdata h;
           h_cells := pair_up inv;
           h_ft := Some (map fst fts, map snd fts);
           h_cdata := pad_all (length fts) (h_cdata h) ++ [(name, values)] |}
    | Some (froms, tos) =>
        let nc := length (h_cells h) in
        let cell_map := cell_map_of froms tos fts tol in
        let new_fts := unmatched cell_map fts in
        let flat := flatten_ft new_fts in
        let uni := uniqQ flat in
        let inv := map (fun x => nv + find_q x uni) flat in
        let cells := h_cells h ++ pair_up inv in
        {| h_verts := h_verts h ++ map pos uni;
           h_depth := h_depth h; h_vdata := h_vdata h;
           h_cells := cells;
           h_ft := Some (froms ++ map fst new_fts, tos ++ map snd new_fts);
           h_cdata := pad_all (length cells) (h_cdata h)
                      ++ [(name, assign (repeat None nc) cell_map values ++ unmatched cell_map values)] |}
    end.

  (* ---- sort_depths ---- *)
  (* np.all(np.diff(depths) >= 0): false as soon as a NaN takes part *)
  Fixpoint nondecreasing (v : list oq) : bool :=
    match v with
    | [] => true
    | a :: r => match r with
                | [] => true
                | b :: _ => match a, b with Some x, Some y => Qle_bool x y | _, _ => false end && nondecreasing r
                end
    end.

  Definition sort_depths (h : hole) : hole :=
    match h_depth h with
    | None => h
    | Some dv0 =>
        let n := length (h_verts h) in
        let dv := pad n dv0 in
        if nondecreasing dv then h
        else
          let sort_ind := argsort dv in
          {| h_verts := pick (h_verts h) sort_ind;
             h_depth := Some (pick dv sort_ind);
             h_vdata := map (fun '(k, v) => (k, pick (pad n v) sort_ind)) (h_vdata h);
             (* key_map = np.argsort(sort_ind)[cells] *)
             h_cells := map (fun '(a, b) => (index_of a sort_ind, index_of b sort_ind)) (h_cells h);
             h_ft := h_ft h; h_cdata := h_cdata h |}
    end.

  Inductive hop :=
  | AddDepth (name : nat) (depth : list Q) (values : list oq) (tol : Q)
  | AddInterval (name : nat) (fts : list (Q * Q)) (values : list oq) (tol : Q).

  (* one entry of the dictionary given to add_data: validate + create the child *)
  Definition happly (h : hole) (op : hop) : hole :=
    match op with
    | AddDepth k d v tol => add_depth h k d v tol
    | AddInterval k ft v tol => add_interval h k ft v tol
    end.
  (* one add_data call with several data sets: every entry in turn, then sort_depths ONCE *)
  Definition hcall (h : hole) (subs : list hop) : hole := sort_depths (fold_left happly subs h).
  Definition hrunc (h : hole) (calls : list (list hop)) : hole := fold_left hcall calls h.
  (* the single-data-set call *)
  Definition hstep (h : hole) (op : hop) : hole := hcall h [op].
  Definition hrun (h : hole) (ops : list hop) : hole := fold_left hstep ops h.

  (* ---- what is compared with the implementation (independent of the order of tied vertices) ---- *)
  Definition vrow : Type := (oq * V3 * list oq)%type.     (* DEPTH, position, the value of every vertex child *)
  Definition crow : Type := (option V3 * option V3 * Q * Q * list oq)%type.

  Definition onth (v : list oq) (i : nat) : oq := match nth_error v i with Some x => x | None => None end.

  Definition vrows (h : hole) : list vrow :=
    let dv := match h_depth h with Some d => d | None => [] end in
    map (fun '(i, p) => (onth dv i, p, map (fun kv => onth (snd kv) i) (h_vdata h)))
        (combine (seq 0 (length (h_verts h))) (h_verts h)).

  Definition crows (h : hole) : list crow :=
    match h_ft h with
    | None => []
    | Some (froms, tos) =>
        map (fun '(c, ((a, b), (f, t))) =>
               (nth_error (h_verts h) a, nth_error (h_verts h) b, f, t, map (fun kv => onth (snd kv) c) (h_cdata h)))
            (combine (seq 0 (length (h_cells h))) (combine (h_cells h) (combine froms tos)))
    end.
End Hole.


(* the hole's position function: Drillhole.desurvey for its collar and survey table *)
Definition pos_of {ang : Type} (dir : ang -> V3) (collar : V3) (s : list (Q * ang)) (d : Q) : V3 :=
  match desurvey dir collar s d with Some p => p | None => vzero end.

(* executable form of "value v of vertex child [name] is attached to a vertex whose DEPTH is within tol of d" *)
Definition attachedb (h : hole) (name : nat) (d v tol : Q) : bool :=
  match h_depth h with
  | None => false
  | Some dv =>
      existsb (fun i =>
        match onth dv i with
        | Some dd => close dd d tol
                     && existsb (fun kv => Nat.eqb (fst kv) name
                                           && match onth (snd kv) i with Some x => Qeq_bool x v | None => false end)
                                (h_vdata h)
        | None => false
        end) (seq 0 (length (h_verts h)))
  end.

(* ======================= the hole with its cached path =======================
   Drillhole._locations caches the station coordinates; the collar and surveys setters reset it; desurvey reads the
   cache (filling it when empty) but recomputes the depth table and the deviations from the current surveys. *)
Section DHole.
  Variable ang : Type.
  Variable dir : ang -> V3.

  Record dhole := {
    d_collar : V3;
    d_surveys : list (Q * ang);
    d_locs : option (list V3);        (* self._locations *)
    d_data : hole
  }.

  Inductive dop :=
  | DSetCollar (c : V3)                       (* well.collar = c *)
  | DSetSurveys (s : list (Q * ang))          (* well.surveys = s *)
  | DQuery (ds : list Q)                      (* well.desurvey(ds) *)
  | DCall (subs : list hop)                   (* well.add_data({...}) *)
  (* well.collar["x"] = x : an in-place edit of the array the `collar` getter hands out, not a setter call.
     refused = the assignment raised (read-only array, after fixes/C18-collar-inplace-readonly.patch); otherwise the
     stored collar changes and the cached path is NOT reset (open finding collar-inplace-stale) *)
  | DCollarX (refused : bool) (x : Q).

  Inductive dobs :=
  | OQuery (ps : list (option V3))
  | OCall (vr : list vrow) (cr : list crow).

  (* the `locations` getter *)
  Definition d_locations (h : dhole) : list V3 :=
    match d_locs h with Some l => l | None => locations dir (d_collar h) (d_surveys h) end.

  Definition d_pos (locs : list V3) (s : list (Q * ang)) (d : Q) : V3 :=
    match desurvey_with dir locs (augment s) d with Some p => p | None => vzero end.

  Definition dstep (h : dhole) (op : dop) : dhole * option dobs :=
    match op with
    | DSetCollar c => ({| d_collar := c; d_surveys := d_surveys h; d_locs := None; d_data := d_data h |}, None)
    | DSetSurveys s => ({| d_collar := d_collar h; d_surveys := s; d_locs := None; d_data := d_data h |}, None)
    | DCollarX true _ => (h, None)
    | DCollarX false x =>
        ({| d_collar := set_x x (d_collar h); d_surveys := d_surveys h; d_locs := d_locs h; d_data := d_data h |}, None)
    | DQuery ds =>
        let locs := d_locations h in
        ({| d_collar := d_collar h; d_surveys := d_surveys h; d_locs := Some locs; d_data := d_data h |},
         Some (OQuery (map (desurvey_with dir locs (augment (d_surveys h))) ds)))
    | DCall subs =>
        let locs := d_locations h in
        let data := hcall (d_pos locs (d_surveys h)) (d_data h) subs in
        (* every validate_* call desurveys, so the cache is filled as soon as the call has a data set *)
        ({| d_collar := d_collar h; d_surveys := d_surveys h;
            d_locs := match subs with [] => d_locs h | _ => Some locs end; d_data := data |},
         Some (OCall (vrows data) (crows data)))
    end.

  Fixpoint drun (h : dhole) (ops : list dop) : dhole * list dobs :=
    match ops with
    | [] => (h, [])
    | op :: r =>
        let '(h1, o) := dstep h op in
        let '(h2, os) := drun h1 r in
        (h2, match o with Some x => x :: os | None => os end)
    end.

  (* the specification: no cache, the path is recomputed from the CURRENT collar and surveys at every use *)
  Definition dstep_spec (h : dhole) (op : dop) : dhole * option dobs :=
    dstep {| d_collar := d_collar h; d_surveys := d_surveys h; d_locs := None; d_data := d_data h |} op.

  Definition dfresh (collar : V3) (s : list (Q * ang)) : dhole :=
    {| d_collar := collar; d_surveys := s; d_locs := None; d_data := empty_hole |}.
End DHole.
Arguments d_collar {ang}. Arguments d_surveys {ang}. Arguments d_locs {ang}. Arguments d_data {ang}.
Arguments DSetCollar {ang}. Arguments DSetSurveys {ang}. Arguments DQuery {ang}. Arguments DCall {ang}. Arguments DCollarX {ang}.
Arguments dstep {ang}. Arguments drun {ang}. Arguments dstep_spec {ang}. Arguments dfresh {ang}.
Arguments d_locations {ang}. Arguments d_pos {ang}.

Fixpoint drun_spec {ang : Type} (dir : ang -> V3) (h : dhole ang) (ops : list (dop ang)) : dhole ang * list dobs :=
  match ops with
  | [] => (h, [])
  | op :: r =>
      let '(h1, o) := dstep_spec dir h op in
      let '(h2, os) := drun_spec dir h1 r in
      (h2, match o with Some x => x :: os | None => os end)
  end.

(* ---------------- executable comparison ---------------- *)
Definition vrow_eqb (a b : vrow) : bool :=
  let '(d1, p1, v1) := a in let '(d2, p2, v2) := b in oq_eqb d1 d2 && veqb p1 p2 && list_eqb oq_eqb v1 v2.
Definition crow_eqb (a b : crow) : bool :=
  let '(a1, b1, f1, t1, v1) := a in let '(a2, b2, f2, t2, v2) := b in
  opt_veqb a1 a2 && opt_veqb b1 b2 && Qeq_bool f1 f2 && Qeq_bool t1 t2 && list_eqb oq_eqb v1 v2.

(* multiset equality *)
Fixpoint remove_first {A} (eqb : A -> A -> bool) (x : A) (l : list A) : option (list A) :=
  match l with
  | [] => None
  | y :: r => if eqb x y then Some r else match remove_first eqb x r with Some r' => Some (y :: r') | None => None end
  end.
Fixpoint perm_eqb {A} (eqb : A -> A -> bool) (l1 l2 : list A) : bool :=
  match l1 with
  | [] => match l2 with [] => true | _ => false end
  | x :: r => match remove_first eqb x l2 with Some l2' => perm_eqb eqb r l2' | None => false end
  end.

(* no two vertices carry the same (non-NaN) depth: the condition under which argsort ties cannot matter *)
Fixpoint distinct_depths (v : list oq) : bool :=
  match v with
  | [] => true
  | None :: r => distinct_depths r
  | Some x :: r => negb (existsb (fun y => match y with Some z => Qeq_bool x z | None => false end) r) && distinct_depths r
  end.

Definition pos_exact (collar : V3) (s : list (Q * azdip)) (d : Q) : V3 :=
  match desurvey dir_exact collar s d with Some p => p | None => vzero end.

(* after each add_data call: the vertex rows (as a multiset) and the cell rows (in order) *)
Fixpoint hole_agree (collar : V3) (s : list (Q * azdip)) (h : hole) (calls : list (list hop))
         (obs : list (list vrow * list crow)) : bool :=
  match calls, obs with
  | [], [] => true
  | c :: r, (ov, oc) :: ro =>
      let h' := hcall (pos_exact collar s) h c in
      perm_eqb vrow_eqb (vrows h') ov && list_eqb crow_eqb (crows h') oc && hole_agree collar s h' r ro
  | _, _ => false
  end.

(* histories with collar / survey changes and position queries *)
Definition dobs_eqb (a b : dobs) : bool :=
  match a, b with
  | OQuery p, OQuery q => list_eqb opt_veqb p q
  | OCall v c, OCall v' c' => perm_eqb vrow_eqb v v' && list_eqb crow_eqb c c'
  | _, _ => false
  end.
Definition dh_agree (collar : V3) (s : list (Q * azdip)) (ops : list (dop azdip)) (obs : list dobs) : bool :=
  list_eqb dobs_eqb (snd (drun dir_exact (dfresh collar s) ops)) obs.
