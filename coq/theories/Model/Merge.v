(* Model of geoh5py/shared/merging/{base,points,cell}.py  (property C16).
   Definitions only; proofs live in Proofs/MergeProofs.v.

   Python transcribed:
     PointsMerger.create_object : vertices = vstack(inputs' vertices)
     CellMerger.create_object   : cells_k + previous ; previous = nanmax(cells_k + previous) + 1
     BaseMerger.merge_data      : the data_dict / data_count loop, including the
                                  "duplicate label" renaming branch.                                   *)
From GV Require Import Prelude.Base.

Definition pt : Type := (Z * Z * Z)%type.

Record dat := { dname : nat; dtype : nat; dcell : bool; dvals : list (option Z) }.
Record inp := { vs : list pt; cs : list (list nat); ds : list dat }.

(* ---------------- geometry ---------------- *)
Definition merge_verts (ins : list inp) : list pt := concat (map vs ins).

(* What the property asks for: input k's cells shifted by the number of vertices before it. *)
Fixpoint merge_cells_spec_from (prev : nat) (ins : list inp) : list (list nat) :=
  match ins with
  | [] => []
  | i :: r => map (map (fun v => v + prev)) (cs i) ++ merge_cells_spec_from (prev + length (vs i)) r
  end.
Definition merge_cells_spec (ins : list inp) := merge_cells_spec_from 0 ins.

(* What CellMerger.create_object does: `previous = np.nanmax(cells + previous) + 1`
   (the offset of the next input is one more than the largest vertex index *referenced* so far). *)
Definition max_list (l : list nat) := fold_right Nat.max 0 l.
Fixpoint merge_cells_from (prev : nat) (ins : list inp) : list (list nat) :=
  match ins with
  | [] => []
  | i :: r =>
      let tmp := map (map (fun v => v + prev)) (cs i) in
      tmp ++ merge_cells_from (max_list (concat tmp) + 1) r
  end.
Definition merge_cells (ins : list inp) := merge_cells_from 0 ins.

(* side condition under which the two coincide: the last vertex of the input is referenced by a cell *)
Definition tail_referenced (i : inp) : Prop := max_list (concat (cs i)) + 1 = length (vs i).
Definition tail_referencedb (i : inp) : bool := Nat.eqb (max_list (concat (cs i)) + 1) (length (vs i)).

(* offsets of input k in the merged vertex / cell arrays *)
Definition voff (ins : list inp) (k : nat) : nat := length (merge_verts (firstn k ins)).
Definition coff (ins : list inp) (k : nat) : nat := length (concat (map cs (firstn k ins))).

Definition cell_ok (n : nat) (c : list nat) : Prop := Forall (fun v => v < n) c.
Definition inp_ok (i : inp) : Prop := Forall (cell_ok (length (vs i))) (cs i).

(* ---------------- data ---------------- *)
(* label = (name, Some ind when renamed by the duplicate branch, type name, is-cell) *)
Definition label : Type := (nat * option nat * nat * bool)%type.
Definition label_eqb (a b : label) : bool :=
  let '(n1, r1, t1, c1) := a in
  let '(n2, r2, t2, c2) := b in
  Nat.eqb n1 n2 && option_eqb Nat.eqb r1 r2 && Nat.eqb t1 t2 && Bool.eqb c1 c2.

Definition vals := list (option Z).
Definition dict := list (label * vals).

Fixpoint lookup (l : label) (d : dict) : option vals :=
  match d with
  | [] => None
  | (k, v) :: r => if label_eqb l k then Some v else lookup l r
  end.

Fixpoint set (l : label) (v : vals) (d : dict) : dict :=
  match d with
  | [] => []
  | (k, w) :: r => if label_eqb l k then (k, v) :: r else (k, w) :: set l v r
  end.

Definition is_none {A} (o : option A) : bool := match o with None => true | Some _ => false end.
Definition all_none (v : vals) : bool := forallb (@is_none Z) v.

Record mstate := { md : dict; vcount : nat; ccount : nat }.

Definition lbl0 (d : dat) : label := (dname d, None, dtype d, dcell d).

Definition data_step (nv nc : nat) (st : mstate) (ind : nat) (d : dat) : mstate :=
  let start := if dcell d then ccount st else vcount st in
  let n := length (dvals d) in
  let l0 := lbl0 d in
  let lbl :=
    match lookup l0 (md st) with
    | Some v => if all_none (slice v start n) then l0 else (dname d, Some ind, dtype d, dcell d)
    | None => l0
    end in
  let d1 :=
    match lookup lbl (md st) with
    | Some _ => md st
    | None => md st ++ [(lbl, repeat None (if dcell d then nc else nv))]
    end in
  match lookup lbl d1 with
  | Some v => {| md := set lbl (splice v start (dvals d)) d1; vcount := vcount st; ccount := ccount st |}
  | None => st (* unreachable *)
  end.

Fixpoint data_steps (nv nc : nat) (st : mstate) (ind : nat) (l : list dat) : mstate :=
  match l with
  | [] => st
  | d :: r => data_steps nv nc (data_step nv nc st ind d) (S ind) r
  end.

Definition input_step (nv nc : nat) (st : mstate) (i : inp) : mstate :=
  let st' := data_steps nv nc st 0 (ds i) in
  {| md := md st'; vcount := vcount st' + length (vs i); ccount := ccount st' + length (cs i) |}.

Definition merge_data (ins : list inp) : dict :=
  let nv := length (merge_verts ins) in
  let nc := length (concat (map cs ins)) in
  md (fold_left (input_step nv nc) ins {| md := []; vcount := 0; ccount := 0 |}).

(* what the API shows: children of the output in creation order *)
Definition out_children (ins : list inp) : list (nat * bool * vals) :=
  map (fun '((n, _, _, c), v) => (n, c, v)) (merge_data ins).

(* ---------------- executable comparison used by the correspondence files ---------------- *)
Definition pt_eqb (a b : pt) : bool :=
  let '(x1, y1, z1) := a in let '(x2, y2, z2) := b in Z.eqb x1 x2 && Z.eqb y1 y2 && Z.eqb z1 z2.
Definition vals_eqb : vals -> vals -> bool := list_eqb (option_eqb Z.eqb).
Definition child_eqb (a b : nat * bool * vals) : bool :=
  let '(n1, c1, v1) := a in let '(n2, c2, v2) := b in Nat.eqb n1 n2 && Bool.eqb c1 c2 && vals_eqb v1 v2.

Definition agree (ins : list inp) (overts : list pt) (ocells : list (list nat)) (och : list (nat * bool * vals)) : bool :=
  list_eqb pt_eqb (merge_verts ins) overts
  && list_eqb (list_eqb Nat.eqb) (merge_cells ins) ocells
  && list_eqb child_eqb (out_children ins) och.

(* the same comparison for what a later reader of the file sees: children are listed in HDF5 name order there, so the
   data sets are compared as a set *)
Definition same_children (l1 l2 : list (nat * bool * vals)) : bool :=
  Nat.eqb (length l1) (length l2) && forallb (fun x => existsb (child_eqb x) l2) l1 && forallb (fun x => existsb (child_eqb x) l1) l2.
Definition agree_stored (ins : list inp) (overts : list pt) (ocells : list (list nat)) (och : list (nat * bool * vals)) : bool :=
  list_eqb pt_eqb (merge_verts ins) overts
  && list_eqb (list_eqb Nat.eqb) (merge_cells ins) ocells
  && same_children (out_children ins) och.
