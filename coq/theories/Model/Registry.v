(* Model of identifier management (property C06): the five uid-keyed registries of weak references of a workspace,
   registration, creation, copies and look-ups, for one or two workspaces.  Definitions only.

   Python transcribed (pinned tree):
     shared/weakref_utils.py : insert_once, get_clean_ref, remove_none_referents           (dget/dset/ddel below = dict ops)
     Workspace.register (dispatch by kind), Workspace.remove_none_referents(registry, rtype) behind the listing getters,
     Workspace.find_group/find_data/find_object/find_property_group/find_type, find_entity, get_entity(uid),
     Workspace.create_entity / create_object_or_group, copy_to_parent (uid kept iff get_entity(uid)[0] is None in the
     target), copy_property_groups (uid kept iff find_property_group is None), ObjectBase.copy (children, children_map,
     property groups), Data.copy, Group.copy(copy_children=False), EntityType.find_or_create,
     Entity.__init__ / PropertyGroup.__init__ (parent.add_children BEFORE workspace.register),
     Group.add_children / ObjectBase.add_children, H5Writer.write_entity (existing node left alone), Workspace.close
     (save_entity(root, add_children=True)).

   Instances (entities, property groups, group/object types) are numbered by the order in which their constructor is
   entered; identifiers are numbers, uuid4() is the counter [fresh].  A weak reference is an instance number, liveness
   is the explicit set [dead]: `ODie` kills instances (the driver drops its references and collects), types die with
   the last instance that references them.

   OUTSIDE THE MODEL (audit 2, C5) -- where the model is narrower than the code; the driver (tools/props/c06.py) stays
   inside these bounds, so the correspondence does not exercise them:
     - Group.copy: only copy_children=False (a group copied alone).  groups/base.py recurses over the children with
       copy_children=True (the default); that recursion is not modelled and not driven.
     - copy_pgs always creates a new property group on the copy.  The code goes Workspace.copy_property_groups ->
       ObjectBase create/fetch_property_group, which first LOOKS FOR a group of the new object by uid / name and raises
       KeyError on a duplicate name; on a freshly made copy (the only caller modelled) there is none to find and the
       names of one source object are distinct, so both branches are unreachable here; an existing target object with
       groups of its own is outside the model.
     - the type of a copy is keyed by the identifier of its CLASS (tuid cls = default_type_uid of ContainerGroup /
       Points / RootGroup).  copy_to_parent hands over the SOURCE type's identifier (workspace.py, entity_type uid);
       the two agree for the default types, custom types (a caller-made GroupType / ObjectType identifier) are outside
       the model.  Data types are not in the model at all (oracle-only block in c06.py).
     - a data set is copied under an OBJECT only (kind guard of OCopy); workspace.py accepts any container as parent.
     - removals are of childless groups / data, or of an object with its data and property groups; no moves.       *)
From GV Require Import Prelude.Base.

Inductive kind := KGroup | KObject | KData | KPG | KType.
Definition kind_eqb (a b : kind) : bool :=
  match a, b with
  | KGroup, KGroup | KObject, KObject | KData, KData | KPG, KPG | KType, KType => true
  | _, _ => false
  end.
Definition kind_idx (k : kind) : nat := match k with KGroup => 0 | KObject => 1 | KData => 2 | KPG => 3 | KType => 4 end.

Definition memb (x : nat) (l : list nat) : bool := existsb (Nat.eqb x) l.

(* ---------------- dict[uid] -> weak reference, insertion ordered ---------------- *)
Definition dict := list (nat * nat).

Fixpoint dget (d : dict) (k : nat) : option nat :=
  match d with
  | [] => None
  | (k', v) :: r => if Nat.eqb k k' then Some v else dget r k
  end.
(* d[k] = v : an existing key keeps its position *)
Fixpoint dset (d : dict) (k v : nat) : dict :=
  match d with
  | [] => [(k, v)]
  | (k', v') :: r => if Nat.eqb k k' then (k, v) :: r else (k', v') :: dset r k v
  end.
Fixpoint ddel (d : dict) (k : nat) : dict :=
  match d with
  | [] => []
  | (k', v') :: r => if Nat.eqb k k' then r else (k', v') :: ddel r k
  end.

(* ---------------- shared/weakref_utils.py ---------------- *)
(* insert_once: None = RuntimeError("Key already used") *)
Definition insert_once (alive : nat -> bool) (d : dict) (k v : nat) : option dict :=
  match dget d k with
  | Some e => if alive e then None else Some (dset d k v)
  | None => Some (dset d k v)
  end.

Definition get_clean_ref (alive : nat -> bool) (d : dict) (k : nat) : dict * option nat :=
  match dget d k with
  | None => (d, None)
  | Some e => if alive e then (d, Some e) else (ddel d k, None)
  end.

Definition remove_none_referents (alive : nat -> bool) (d : dict) : dict := filter (fun p => alive (snd p)) d.

(* ---------------- instances ---------------- *)
(* ecls: 0 RootGroup, 1 ContainerGroup, 2 Points, 3 data, 4 property group; for a type: the class it serves *)
Record ent := {
  euid : nat; ekind : kind; ews : nat; ecls : nat; epar : nat;
  ech : list nat;          (* _children (instances) *)
  epgs : list nat;         (* _property_groups (instances) *)
  eprops : list nat;       (* a property group's _properties (identifiers) *)
  etype : nat;             (* the EntityType instance of a group / object *)
  ereg : bool }.           (* registration succeeded *)

Record st := {
  n : nat;
  E : nat -> ent;
  dead : list nat;
  R : nat -> kind -> dict;             (* workspace -> kind -> registry *)
  flat : nat -> list (nat * nat);      (* workspace -> (kind index, uid) nodes of the flat containers Groups/Objects/Data *)
  links : nat -> list ((nat * nat) * (nat * nat));   (* workspace -> child links: (parent node, child node), nodes as in flat *)
  fresh : nat }.                       (* next uuid4() *)

Definition alive (w : st) (e : nat) : bool := negb (memb e (dead w)).
Definition root_of (ws : nat) : nat := 1 + 2 * ws.      (* instances 0,2 = the root types, 1,3 = the roots *)
Definition tuid (cls : nat) : nat := Nat.min cls 4.      (* default_type_uid of the class (0..4); entity uids start at 100 *)

Definition set_E (w : st) (f : nat -> ent) : st :=
  {| n := n w; E := f; dead := dead w; R := R w; flat := flat w; links := links w; fresh := fresh w |}.
Definition upd (w : st) (x : nat) (f : ent -> ent) : st :=
  set_E w (fun y => if Nat.eqb y x then f (E w y) else E w y).
Definition set_R (w : st) (ws : nat) (k : kind) (d : dict) : st :=
  {| n := n w; E := E w; dead := dead w;
     R := fun ws' k' => if Nat.eqb ws' ws && kind_eqb k' k then d else R w ws' k';
     flat := flat w; links := links w; fresh := fresh w |}.
Definition set_flat (w : st) (ws : nat) (l : list (nat * nat)) : st :=
  {| n := n w; E := E w; dead := dead w; R := R w;
     flat := fun ws' => if Nat.eqb ws' ws then l else flat w ws'; links := links w; fresh := fresh w |}.
Definition set_dead (w : st) (l : list nat) : st :=
  {| n := n w; E := E w; dead := l; R := R w; flat := flat w; links := links w; fresh := fresh w |}.

Definition set_links (w : st) (ws : nat) (l : list ((nat * nat) * (nat * nat))) : st :=
  {| n := n w; E := E w; dead := dead w; R := R w; flat := flat w;
     links := fun ws' => if Nat.eqb ws' ws then l else links w ws'; fresh := fresh w |}.

Definition node_eqb (a b : nat * nat) : bool := Nat.eqb (fst a) (fst b) && Nat.eqb (snd a) (snd b).
Definition link_eqb (a b : (nat * nat) * (nat * nat)) : bool := node_eqb (fst a) (fst b) && node_eqb (snd a) (snd b).

Definition with_ch (r : ent) (c : list nat) (g : list nat) : ent :=
  {| euid := euid r; ekind := ekind r; ews := ews r; ecls := ecls r; epar := epar r; ech := c; epgs := g;
     eprops := eprops r; etype := etype r; ereg := ereg r |}.
Definition with_reg (r : ent) (p : list nat) : ent :=
  {| euid := euid r; ekind := ekind r; ews := ews r; ecls := ecls r; epar := epar r; ech := ech r; epgs := epgs r;
     eprops := p; etype := etype r; ereg := true |}.

Definition with_props (r : ent) (p : list nat) : ent :=
  {| euid := euid r; ekind := ekind r; ews := ews r; ecls := ecls r; epar := epar r; ech := ech r; epgs := epgs r;
     eprops := p; etype := etype r; ereg := ereg r |}.

Definition blank (u : nat) (k : kind) (ws cls par ty : nat) : ent :=
  {| euid := u; ekind := k; ews := ws; ecls := cls; epar := par; ech := []; epgs := []; eprops := []; etype := ty; ereg := false |}.

(* outcomes: Ok, Refused = RuntimeError of insert_once, NotFound, ErrKey = KeyError in copy_property_groups,
   BadOp = history not applicable, Found x = look-up returned instance x *)
Inductive outcome := Ok | Refused | NotFound | ErrKey | BadOp | Found (x : nat).
Definition outcome_code (o : outcome) : nat :=
  match o with Ok => 0 | Refused => 1 | NotFound => 2 | ErrKey => 3 | BadOp => 8 | Found x => 10 + x end.

(* ---------------- allocation, parent.add_children, Workspace.register, H5Writer.save_entity ---------------- *)
Definition alloc (w : st) (r : ent) : st * nat :=
  ({| n := S (n w); E := fun y => if Nat.eqb y (n w) then r else E w y; dead := dead w; R := R w; flat := flat w; links := links w; fresh := fresh w |}, n w).

(* Group.add_children: `if child in self._children: continue` (identity; a new instance is never in);
   ObjectBase.add_children: `if child.uid not in children_uids and isinstance(child, (Data, PropertyGroup))` *)
Definition add_child (w : st) (p x : nat) : st :=
  match ekind (E w p) with
  | KObject =>
      if memb (euid (E w x)) (map (fun c => euid (E w c)) (ech (E w p))) then w
      else upd w p (fun r => with_ch r (ech r ++ [x])
                                (if kind_eqb (ekind (E w x)) KPG
                                 then (if memb (euid (E w x)) (map (fun c => euid (E w c)) (epgs r)) then epgs r else epgs r ++ [x])
                                 else epgs r))
  | _ => upd w p (fun r => with_ch r (ech r ++ [x]) (epgs r))
  end.

Definition kidx_storable (k : kind) : bool := match k with KGroup | KObject | KData => true | _ => false end.

(* H5Writer.write_entity: a node with that uid in the flat container of that kind is left untouched *)
Definition save_flat (w : st) (ws : nat) (k : kind) (u : nat) : st :=
  if kidx_storable k && negb (existsb (fun p => Nat.eqb (fst p) (kind_idx k) && Nat.eqb (snd p) u) (flat w ws))
  then set_flat w ws (flat w ws ++ [(kind_idx k, u)]) else w.

(* H5Writer.write_to_parent: hard link under the parent's node, in the container of the child's kind, if absent *)
Definition save_link (w : st) (ws : nat) (pn cn : nat * nat) : st :=
  if existsb (link_eqb (pn, cn)) (links w ws) then w else set_links w ws (links w ws ++ [(pn, cn)]).

(* H5Writer.save_entity of a new entity: its node, then the link from its parent's node *)
Definition save_node (w : st) (ws par : nat) (k : kind) (u : nat) : st :=
  let w1 := save_flat w ws k u in
  if kidx_storable k then save_link w1 ws (kind_idx (ekind (E w par)), euid (E w par)) (kind_idx k, u) else w1.

(* H5Writer.remove_child(uid, ref_type, parent) *)
Definition del_link (w : st) (ws : nat) (pn cn : nat * nat) : st :=
  set_links w ws (filter (fun l => negb (link_eqb l (pn, cn))) (links w ws)).
(* a node deleted from its flat container: its own sub-containers are no longer reached through the flat containers *)
Definition drop_node_links (w : st) (ws : nat) (nd : nat * nat) : st :=
  set_links w ws (filter (fun l => negb (node_eqb (fst l) nd)) (links w ws)).

(* constructor of an entity / property group: allocate, attach to the parent, THEN register, then store *)
(* Workspace.get_entity(uid) = find_group or find_data or find_object or find_property_group (short-circuit) *)
Definition find_in (w : st) (ws : nat) (k : kind) (u : nat) : st * option nat :=
  let (d, r) := get_clean_ref (alive w) (R w ws k) u in (set_R w ws k d, r).

Definition get_entity (w : st) (ws u : nat) : st * option nat :=
  let (w1, r1) := find_in w ws KGroup u in
  match r1 with Some x => (w1, Some x) | None =>
  let (w2, r2) := find_in w1 ws KData u in
  match r2 with Some x => (w2, Some x) | None =>
  let (w3, r3) := find_in w2 ws KObject u in
  match r3 with Some x => (w3, Some x) | None =>
  find_in w3 ws KPG u end end end.

(* Entity.metadata getter (reached from H5Writer.write_properties when an entity is stored, and from get_attributes when
   it is copied): Workspace.fetch_metadata calls self.get_entity(uid) -- a look-up that cleans dead references *)
Definition touch_metadata (w : st) (ws : nat) (k : kind) (u : nat) : st :=
  if kidx_storable k then fst (get_entity w ws u) else w.

(* types die with the last instance that references them *)
Definition type_orphan (w : st) (dd : list nat) (t : nat) : bool :=
  kind_eqb (ekind (E w t)) KType
  && negb (existsb (fun e => negb (memb e dd) && negb (kind_eqb (ekind (E w e)) KType) && Nat.eqb (etype (E w e)) t
                             && negb (kind_eqb (ekind (E w e)) KData) && negb (kind_eqb (ekind (E w e)) KPG))
                   (seq 0 (n w))).


(* instances [es] lose their last strong reference: they die, and so do the types nobody alive references any more *)
Definition kill (w : st) (es : list nat) : st :=
  let dd := dead w ++ filter (fun e => negb (memb e (dead w))) es in
  let dt := filter (fun t => negb (memb t dd) && type_orphan w dd t) (seq 0 (n w)) in
  set_dead w (dd ++ dt).

(* [rollback c] = the checked tree undoes the parent assignment when registration is refused
   (fixes/C06-refused-creation-rollback.patch; found by a behavioural probe on every run) *)
Record cfg := { rollback : bool }.
Definition pinned : cfg := {| rollback := false |}.
Definition repaired : cfg := {| rollback := true |}.

Definition remove_one (x : nat) (l : list nat) : list nat := filter (fun y => negb (Nat.eqb y x)) l.

Definition construct (c : cfg) (w : st) (ws : nat) (k : kind) (cls par u ty : nat) (props : list nat) : st * outcome * nat :=
  let (w1, x) := alloc w (blank u k ws cls par ty) in
  let w2 := add_child w1 par x in
  match insert_once (alive w2) (R w2 ws k) u x with
  | None =>
      (* RuntimeError: the instance survives only if its parent took it (and keeps it) *)
      let w2' := if rollback c then upd w2 par (fun r => with_ch r (remove_one x (ech r)) (remove_one x (epgs r))) else w2 in
      (if memb x (ech (E w2' par)) then w2' else kill w2' [x], Refused, x)
  | Some d =>
      let w3 := upd (set_R w2 ws k d) x (fun r => with_reg r props) in
      let w4 := touch_metadata (save_node w3 ws par k u) ws k u in
      (* ObjectBase.add_children refuses a child whose uid is already among the children: nobody references the new
         instance once the call returns (the driver keeps only what it can reach) *)
      (if memb x (ech (E w4 par)) then w4 else kill w4 [x], Ok, x)
  end.

(* EntityType.find_or_create(workspace, uid = default_type_uid(class)) *)
Definition find_or_create_type (w : st) (ws cls : nat) : st * nat :=
  let (d, r) := get_clean_ref (alive w) (R w ws KType) (tuid cls) in
  let w1 := set_R w ws KType d in
  match r with
  | Some t => (w1, t)
  | None =>
      let (w2, t) := alloc w1 (blank (tuid cls) KType ws cls 0 0) in
      match insert_once (alive w2) (R w2 ws KType) (tuid cls) t with
      | Some d' => (upd (set_R w2 ws KType d') t (fun r => with_reg r []), t)
      | None => (w2, t)        (* cannot happen: the entry was just cleaned *)
      end
  end.

Definition take_fresh (w : st) : st * nat :=
  ({| n := n w; E := E w; dead := dead w; R := R w; flat := flat w; links := links w; fresh := S (fresh w) |}, fresh w).

(* copy_to_parent's identifier rule *)
Definition copy_uid (w : st) (ws u : nat) : st * nat :=
  let (w1, r) := get_entity w ws u in
  match r with None => (w1, u) | Some _ => take_fresh w1 end.

(* ---------------- operations ---------------- *)
Inductive uspec := UFresh | USame (e : nat).
Inductive op :=
| OCreate (ws : nat) (isobj : bool) (parent : nat) (u : uspec)
| OData (obj : nat) (u : uspec)
| OPg (obj : nat) (ds : list nat) (u : uspec)
| OCopy (e : nat) (target : nat)
| ORemove (e : nat)
| ODie (es : list nat)
| OList (ws : nat) (k : kind)
| OLookup (ws : nat) (e : nat).

Definition pick_uid (w : st) (u : uspec) : st * nat :=
  match u with UFresh => take_fresh w | USame e => (w, euid (E w e)) end.

Definition uspec_ok (w : st) (u : uspec) : bool := match u with UFresh => true | USame e => Nat.ltb e (n w) end.

Definition usable (w : st) (e : nat) (k : kind) : bool := Nat.ltb e (n w) && alive w e && kind_eqb (ekind (E w e)) k.

(* copy of the data children of an object, building children_map *)
Fixpoint copy_children (cf : cfg) (w : st) (ws x' : nat) (cs : list nat) (cmap : dict) : st * outcome * dict :=
  match cs with
  | [] => (w, Ok, cmap)
  | c :: r =>
      if kind_eqb (ekind (E w c)) KPG then copy_children cf w ws x' r cmap
      else
        let w0 := touch_metadata w (ews (E w c)) KData (euid (E w c)) in          (* get_attributes(child) *)
        let (w1, u') := copy_uid w0 ws (euid (E w c)) in
        match construct cf w1 ws KData 3 x' u' 0 [] with
        | (w2, Ok, _) => copy_children cf w2 ws x' r (dset cmap (euid (E w c)) u')
        | (w2, o, _) => (w2, o, cmap)
        end
  end.

Fixpoint map_props (cmap : dict) (ps : list nat) : option (list nat) :=
  match ps with
  | [] => Some []
  | p :: r => match dget cmap p, map_props cmap r with Some q, Some l => Some (q :: l) | _, _ => None end
  end.

(* Workspace.copy_property_groups *)
Fixpoint copy_pgs (c : cfg) (w : st) (ws x' : nat) (gs : list nat) (cmap : dict) : st * outcome :=
  match gs with
  | [] => (w, Ok)
  | g :: r =>
      match map_props cmap (eprops (E w g)) with
      | None => (w, ErrKey)
      | Some ps =>
          let (w1, f) := find_in w ws KPG (euid (E w g)) in
          let (w2, u') := match f with None => (w1, euid (E w g)) | Some _ => take_fresh w1 end in
          match construct c w2 ws KPG 4 x' u' 0 ps with
          | (w3, Ok, _) => copy_pgs c w3 ws x' r cmap
          | (w3, o, _) => (w3, o)
          end
      end
  end.

Definition do_copy (c : cfg) (w0 : st) (e target : nat) : st * outcome :=
  let ws := ews (E w0 target) in
  let w := touch_metadata w0 (ews (E w0 e)) (ekind (E w0 e)) (euid (E w0 e)) in   (* get_attributes(entity) *)
  match ekind (E w e) with
  | KData =>
      if usable w target KObject then
        let (w1, u') := copy_uid w ws (euid (E w e)) in
        let '(w2, o, _) := construct c w1 ws KData 3 target u' 0 [] in (w2, o)
      else (w, BadOp)
  | KGroup =>
      if usable w target KGroup then
        let (w1, u') := copy_uid w ws (euid (E w e)) in
        let (w2, t) := find_or_create_type w1 ws (ecls (E w e)) in
        let '(w3, o, _) := construct c w2 ws KGroup (ecls (E w e)) target u' t [] in (w3, o)
      else (w, BadOp)
  | KObject =>
      if usable w target KGroup then
        let (w1, u') := copy_uid w ws (euid (E w e)) in
        let (w2, t) := find_or_create_type w1 ws (ecls (E w e)) in
        match construct c w2 ws KObject (ecls (E w e)) target u' t [] with
        | (w3, Ok, x') =>
            match copy_children c w3 ws x' (ech (E w3 e)) [] with
            | (w4, Ok, cmap) => copy_pgs c w4 ws x' (epgs (E w4 e)) cmap
            | (w4, o, _) => (w4, o)
            end
        | (w3, o, _) => (w3, o)
        end
      else (w, BadOp)
  | _ => (w, BadOp)
  end.

(* reachability from a root through _children *)
Fixpoint attached_f (f : nat) (w : st) (x : nat) : bool :=
  match f with
  | 0 => false
  | S f' => Nat.eqb x 1 || Nat.eqb x 3
            || (memb x (ech (E w (epar (E w x)))) && negb (kind_eqb (ekind (E w x)) KType) && attached_f f' w (epar (E w x)))
  end.
Definition attached (w : st) (x : nat) : bool := Nat.ltb x (n w) && attached_f (S (n w)) w x.

Definition sweep (w : st) (ws : nat) (k : kind) : st :=
  let d := R w ws k in
  let deadkeys := map fst (filter (fun p => negb (alive w (snd p))) d) in
  let w1 := set_R w ws k (remove_none_referents (alive w) d) in
  if kidx_storable k
  then
    let w2 := set_flat w1 ws (filter (fun p => negb (Nat.eqb (fst p) (kind_idx k) && memb (snd p) deadkeys)) (flat w1 ws)) in
    set_links w2 ws (filter (fun l => negb (Nat.eqb (fst (fst l)) (kind_idx k) && memb (snd (fst l)) deadkeys)) (links w2 ws))
  else w1.

(* ws.remove_entity(object) -> remove_recursively: `for child in list(entity.children): self.remove_entity(child)`.
   A data child: ObjectBase.remove_children([d]) = remove_data_from_groups(d) over a snapshot of the groups
   (PropertyGroup.remove_properties: nothing when _properties is None; the group is deleted when it becomes empty),
   then _children.remove(d); H5Writer.remove_entity deletes its flat node.  A property-group child is taken off both lists. *)
Definition drop_child (w : st) (o x : nat) : st :=
  upd w o (fun r => with_ch r (remove_one x (ech r)) (remove_one x (epgs r))).

Definition scrub_groups (w : st) (o u : nat) : st :=
  fold_left (fun w g =>
               match eprops (E w g) with
               | [] => w
               | l => let ps := filter (fun x => negb (Nat.eqb x u)) l in
                      let w1 := upd w g (fun r => with_props r ps) in
                      match ps with [] => drop_child w1 o g | _ => w1 end
               end) (epgs (E w o)) w.

Definition clear_children (w : st) (o : nat) : st :=
  fold_left (fun w x =>
               if kind_eqb (ekind (E w x)) KPG then drop_child w o x
               else
                 let w1 := drop_child (scrub_groups w o (euid (E w x))) o x in
                 let w2 := set_flat w1 (ews (E w o))
                   (filter (fun q => negb (Nat.eqb (fst q) (kind_idx KData) && Nat.eqb (snd q) (euid (E w x)))) (flat w1 (ews (E w o)))) in
                 drop_node_links
                   (del_link w2 (ews (E w o)) (kind_idx (ekind (E w o)), euid (E w o)) (kind_idx KData, euid (E w x)))
                   (ews (E w o)) (kind_idx KData, euid (E w x)))
            (ech (E w o)) w.

Definition step (c : cfg) (w : st) (a : op) : st * outcome :=
  match a with
  | OCreate ws isobj parent u =>
      if usable w parent KGroup && Nat.eqb (ews (E w parent)) ws && uspec_ok w u then
        let k := if isobj then KObject else KGroup in
        let cls := if isobj then 2 else 1 in
        let (w0, uid) := pick_uid w u in
        let (w1, t) := find_or_create_type w0 ws cls in
        let '(w2, o, _) := construct c w1 ws k cls parent uid t [] in (w2, o)
      else (w, BadOp)
  | OData obj u =>
      if usable w obj KObject && uspec_ok w u then
        let (w0, uid) := pick_uid w u in
        let '(w2, o, _) := construct c w0 (ews (E w obj)) KData 3 obj uid 0 [] in (w2, o)
      else (w, BadOp)
  | OPg obj ds u =>
      if usable w obj KObject && uspec_ok w u then
        let (w0, uid) := pick_uid w u in
        let ps := map (fun d => euid (E w d)) (filter (fun d => memb d (ech (E w obj)) && kind_eqb (ekind (E w d)) KData) ds) in
        let '(w2, o, _) := construct c w0 (ews (E w obj)) KPG 4 obj uid 0 ps in (w2, o)
      else (w, BadOp)
  | OCopy e target =>
      if Nat.ltb e (n w) && alive w e && Nat.ltb target (n w) && alive w target then do_copy c w e target else (w, BadOp)
  | ORemove e =>
      (* ws.remove_entity of a childless group / data, or of an object with its data and property groups:
         children first, then detach, delete the flat node, collect(), sweep the dead types *)
      if attached w e && alive w e && negb (Nat.eqb e 1) && negb (Nat.eqb e 3)
         && (kind_eqb (ekind (E w e)) KObject || match ech (E w e) with [] => true | _ => false end)
         && kidx_storable (ekind (E w e)) then
        let p := epar (E w e) in
        let ws := ews (E w e) in
        let w0 := if kind_eqb (ekind (E w e)) KObject then clear_children w e else w in
        let w1 := upd w0 p (fun r => with_ch r (remove_one e (ech r)) (epgs r)) in
        let w2 := set_flat w1 ws (filter (fun q => negb (Nat.eqb (fst q) (kind_idx (ekind (E w e))) && Nat.eqb (snd q) (euid (E w e)))) (flat w1 ws)) in
        let w3 := drop_node_links (del_link w2 ws (kind_idx (ekind (E w p)), euid (E w p)) (kind_idx (ekind (E w e)), euid (E w e)))
                                  ws (kind_idx (ekind (E w e)), euid (E w e)) in
        (sweep w3 ws KType, Ok)
      else (w, BadOp)
  | ODie es =>
      (* an instance can only die when nothing alive outside the list points to it (a child keeps its _parent) *)
      if forallb (fun e => Nat.ltb e (n w) && negb (attached w e) && negb (kind_eqb (ekind (E w e)) KType)) es
         && negb (existsb (fun c => negb (memb c es) && negb (memb c (dead w)) && negb (kind_eqb (ekind (E w c)) KType)
                                    && memb (epar (E w c)) es) (seq 0 (n w))) then
        (kill w es, Ok)
      else (w, BadOp)
  | OList ws k =>
      if kind_eqb k KPG then (w, BadOp) else (sweep w ws k, Ok)
  | OLookup ws e =>
      if Nat.ltb e (n w) then
        let (w1, r) := get_entity w ws (euid (E w e)) in
        (w1, match r with Some x => Found x | None => NotFound end)
      else (w, BadOp)
  end.

Fixpoint run (c : cfg) (w : st) (h : list op) : st :=
  match h with
  | [] => w
  | a :: r => run c (fst (step c w a)) r
  end.

(* two workspaces, each with its RootGroup type (instances 0, 2) and root (instances 1, 3) *)
Definition init : st :=
  {| n := 4;
     E := fun y => match y with
                   | 0 => with_reg (blank 0 KType 0 0 0 0) []
                   | 1 => with_reg (blank 10 KGroup 0 0 1 0) []
                   | 2 => with_reg (blank 0 KType 1 0 0 0) []
                   | _ => with_reg (blank 11 KGroup 1 0 3 2) []
                   end;
     dead := [];
     R := fun ws k => match ws, k with
                      | 0, KType => [(0, 0)] | 0, KGroup => [(10, 1)]
                      | 1, KType => [(0, 2)] | 1, KGroup => [(11, 3)]
                      | _, _ => [] end;
     flat := fun ws => match ws with 0 => [(0, 10)] | 1 => [(0, 11)] | _ => [] end;
     links := fun _ => [];
     fresh := 100 |}.

(* ---------------- observations ---------------- *)
(* an identifier is shown as the first instance that carried it *)
Definition uidrep (w : st) (u : nat) : nat :=
  match find (fun e => Nat.eqb (euid (E w e)) u) (seq 0 (n w)) with Some e => e | None => 999 end.

Definition ser_list (l : list nat) : list nat := length l :: l.

Definition obs_inst (w : st) (e : nat) : list nat :=
  let r := E w e in
  [uidrep w (euid r); if alive w e then 1 else 0; kind_idx (ekind r); ews r]
  ++ (if alive w e then ser_list (ech r) ++ ser_list (epgs r) ++ ser_list (map (uidrep w) (eprops r))
                        ++ [if kind_eqb (ekind r) KGroup || kind_eqb (ekind r) KObject then etype r else 0]
      else [0; 0; 0; 0]).

Definition obs_reg (w : st) (ws : nat) (k : kind) : list nat :=
  let d := R w ws k in
  length d :: flat_map (fun p => [uidrep w (fst p); if alive w (snd p) then 1 else 0; if alive w (snd p) then snd p else 0]) d.

Definition sorted_ins := fix ins (x : nat) (l : list nat) : list nat :=
  match l with [] => [x] | y :: r => if Nat.leb x y then x :: l else y :: ins x r end.
Definition sort (l : list nat) : list nat := fold_right sorted_ins [] l.

Definition obs_flat (w : st) (ws : nat) (k : kind) : list nat :=
  ser_list (sort (map (fun p => uidrep w (snd p)) (filter (fun p => Nat.eqb (fst p) (kind_idx k)) (flat w ws)))).

(* child links of the nodes the flat containers reach: [parent kind; parent uid; child kind; child uid] rows, sorted *)
Definition link_row (w : st) (l : (nat * nat) * (nat * nat)) : N * list nat :=
  let pk := fst (fst l) in let pu := uidrep w (snd (fst l)) in
  let ck := fst (snd l) in let cu := uidrep w (snd (snd l)) in
  ((((N.of_nat pk * 1000 + N.of_nat pu) * 10 + N.of_nat ck) * 1000 + N.of_nat cu)%N, [pk; pu; ck; cu]).
Fixpoint ins_row (x : N * list nat) (l : list (N * list nat)) : list (N * list nat) :=
  match l with [] => [x] | y :: r => if N.leb (fst x) (fst y) then x :: l else y :: ins_row x r end.
Definition obs_links (w : st) (ws : nat) : list nat :=
  let vis := filter (fun l => existsb (node_eqb (fst l)) (flat w ws)) (links w ws) in
  length vis :: flat_map snd (fold_right ins_row [] (map (link_row w) vis)).

Definition all_kinds : list kind := [KGroup; KObject; KData; KPG; KType].

Definition observe (w : st) (o : outcome) : list nat :=
  outcome_code o :: n w :: flat_map (obs_inst w) (seq 0 (n w))
  ++ flat_map (fun ws => flat_map (obs_reg w ws) all_kinds) [0; 1]
  ++ flat_map (fun ws => flat_map (obs_flat w ws) [KGroup; KObject; KData]) [0; 1]
  ++ flat_map (obs_links w) [0; 1].

Fixpoint run_obs (c : cfg) (w : st) (h : list op) : list (list nat) * st :=
  match h with
  | [] => ([], w)
  | a :: r => let (w1, o) := step c w a in let (l, w2) := run_obs c w1 r in (observe w1 o :: l, w2)
  end.

(* Workspace.close: save_entity(root, add_children=True) stores every attached entity whose node is missing *)
Definition close_flat (w : st) (ws : nat) : st :=
  fold_left (fun w e => if attached w e && Nat.eqb (ews (E w e)) ws && alive w e
                        then save_flat w ws (ekind (E w e)) (euid (E w e)) else w) (seq 0 (n w)) w.

Definition final_trace (w : st) : list nat :=
  let w' := close_flat (close_flat w 0) 1 in
  flat_map (fun ws => flat_map (obs_flat w' ws) [KGroup; KObject; KData]) [0; 1].

(* ---------------- digest (as in Model/Removal.v) ---------------- *)
Definition hmask : N := 18446744073709551615%N.
Definition pack (l : list nat) : N := fold_left (fun a x => N.lor (N.shiftl a 8) (N.of_nat x)) l 0%N.
Definition hstep (h : N) (x : N) : N := N.land (h * 6364136223846793005 + x + 1)%N hmask.
Fixpoint digest_from (h : N) (l : list nat) {struct l} : N :=
  match l with
  | a :: b :: c :: d :: e :: f :: g :: i :: r => digest_from (hstep h (pack [a; b; c; d; e; f; g; i])) r
  | _ => hstep h (pack l)
  end.
Definition digest (l : list nat) : N := digest_from 7%N l.

Definition agree (c : cfg) (h : list op) (digests : list N) (final : list nat) : bool :=
  let (l, w) := run_obs c init h in
  list_eqb N.eqb (map digest l) digests && list_eqb Nat.eqb (final_trace w) final.
