(* Model of geoh5py/objects/drillhole.py : Drillhole.surveys / locations / desurvey / compute_deviation (property C18),
   add_vertices / validate_depth_data / validate_interval_data / sort_depths and shared/utils.py match_values /
   merge_arrays.  Definitions only; proofs live in Proofs/DesurveyProofs.v.

   Depths and coordinates are rationals; the trigonometry (deviation_x/y/z of an (azimuth, dip) pair) is the Section
   variable [dir].  The model follows the REPAIRED compute_deviation (fixes/C18-divide-uninitialised.patch): the
   deviation of a leg is (dl_in + dl_out) / 2 for every leg.  The unrepaired code divided by the leg length with
   np.divide(where=lengths != 0) and no out=, which leaves the entry of a zero-length leg uninitialised ([dev_old]). *)
From GV Require Import Prelude.Base Model.GridIndex.
From Coq Require Import QArith Qround.
Close Scope Q_scope.

Definition Qltb (a b : Q) : bool := negb (Qle_bool b a).

(* repaired compute_deviation (fixes/C18-divide-uninitialised.patch), component-wise: (dl_in + dl_out) / 2.0 *)
Definition dev (din dout : V3) : V3 :=
  let '(a, b, c) := din in let '(p, q, r) := dout in (((a + p) / 2)%Q, ((b + q) / 2)%Q, ((c + r) / 2)%Q).

(* the code before the repair, component-wise: dl_in + lengths * ddl / 2.0 with
   ddl = np.divide(dl_out - dl_in, lengths, where=lengths != 0): where lengths == 0 the entry of ddl is whatever the
   freshly allocated output array contains.  [g] stands for that content when it happens to be a finite number
   (a NaN or infinity there turns every location into NaN and has no counterpart in Q). *)
Definition dev1_old (g din dout len : Q) : Q :=
  (din + len * (if Qeq_bool len 0 then g else (dout - din) / len) / 2)%Q.
Definition dev_old (g : Q) (din dout : V3) (len : Q) : V3 :=
  let '(a, b, c) := din in let '(p, q, r) := dout in (dev1_old g a p len, dev1_old g b q len, dev1_old g c r len).

Definition vmean (a b : V3) : V3 := vscale (1 # 2)%Q (vadd a b).

(* collar + np.cumsum(np.r_[0.0, lengths * deviation]) : the running sums, starting at acc *)
Fixpoint cum (acc : V3) (lg : list (Q * V3)) : list V3 :=
  acc :: match lg with
         | [] => []
         | (l, v) :: r => cum (vadd acc (vscale l v)) r
         end.
Definition locations_of (collar : V3) (lg : list (Q * V3)) : list V3 := map (vadd collar) (cum vzero lg).

(* np.searchsorted(ts, d, side="left") for a sorted ts: the number of entries < d *)
Definition count_lt (ts : list Q) (d : Q) : nat := length (filter (fun t => Qltb t d) ts).
(* side="right": the number of entries <= d (the C18 mutant of DESIGN appendix C; also used by match_values) *)
Definition count_le (ts : list Q) (d : Q) : nat := length (filter (fun t => Qle_bool t d) ts).

(* non-decreasing chain *)
Fixpoint sortedQ (l : list Q) : Prop :=
  match l with
  | [] => True
  | x :: r => match r with [] => True | y :: _ => (x <= y)%Q end /\ sortedQ r
  end.
Fixpoint sortedQb (l : list Q) : bool :=
  match l with
  | [] => true
  | x :: r => match r with [] => true | y :: _ => Qle_bool x y end && sortedQb r
  end.

Section Desurvey.
  Variable ang : Type.              (* an (azimuth, dip) pair as stored in the survey table *)
  Variable dir : ang -> V3.         (* (deviation_x, deviation_y, deviation_z) of it *)

  Definition station : Type := (Q * ang)%type.

  (* surveys = np.vstack([self.surveys[0, :], self.surveys]); surveys[0, 0] = 0.0 *)
  Definition augment (s : list station) : list station :=
    match s with
    | [] => []
    | (_, a) :: _ => (0%Q, a) :: s
    end.

  (* compute_deviation: per leg (length, deviation) *)
  Fixpoint legs (t : list station) : list (Q * V3) :=
    match t with
    | [] => []
    | (t0, a0) :: r =>
        match r with
        | [] => []
        | (t1, a1) :: _ => ((t1 - t0)%Q, dev (dir a0) (dir a1)) :: legs r
        end
    end.

  Definition depths_of (t : list station) : list Q := map fst t.

  (* Drillhole.locations *)
  Definition locations (collar : V3) (s : list station) : list V3 := locations_of collar (legs (augment s)).

  (* Drillhole.desurvey for one depth, on the augmented table t, given the array self.locations returns (a cache:
     see Model/HoleData.v [dhole]); the table and the deviations are recomputed from the current surveys at every call *)
  Definition desurvey_with (locs : list V3) (t : list station) (d : Q) : option V3 :=
    let ts := depths_of t in
    let lg := legs t in
    let il := Nat.pred (count_lt ts d) in         (* np.maximum(np.searchsorted(ts, d, side="left") - 1, 0) *)
    let id := Nat.min il (length lg - 1) in       (* np.minimum(ind_loc, deviation.shape[0] - 1) *)
    match nth_error locs il, nth_error ts il, nth_error lg id with
    | Some p, Some t0, Some (_, v) => Some (vadd p (vscale (d - t0)%Q v))
    | _, _, _ => None
    end.
  Definition desurvey_on (collar : V3) (t : list station) (d : Q) : option V3 :=
    desurvey_with (locations_of collar (legs t)) t d.
  Definition desurvey (collar : V3) (s : list station) (d : Q) : option V3 := desurvey_on collar (augment s) d.

  (* the stated domain of the property: at least one row, depths non-decreasing and not negative *)
  Definition survey_ok (s : list station) : Prop := s <> [] /\ sortedQ (0%Q :: map fst s).
  Definition survey_okb (s : list station) : bool :=
    match s with [] => false | _ => sortedQb (0%Q :: map fst s) end.
End Desurvey.
Arguments augment {ang} s.
Arguments legs {ang} dir t.
Arguments depths_of {ang} t.
Arguments locations {ang} dir collar s.
Arguments desurvey_with {ang} dir locs t d.
Arguments desurvey_on {ang} dir collar t d.
Arguments desurvey {ang} dir collar s d.
Arguments survey_ok {ang} s.
Arguments survey_okb {ang} s.

(* ======================= exact directions for the correspondence ======================= *)
(* deviation_x = cos(deg2rad(450 - az % 360)) * cos(deg2rad(dip)), deviation_y = sin(...) * cos(deg2rad(dip)),
   deviation_z = sin(deg2rad(dip)); azimuth and dip multiples of 90 degrees *)
Definition azdip : Type := (Q * Q)%type.
Definition qmod360 (a : Q) : Q := inject_Z (Qfloor a mod 360).     (* exact for integer a (the generator's domain) *)
Definition dir_exact (ad : azdip) : V3 :=
  let '(az, dip) := ad in
  let '(ct, st) := cos_sin (450 - qmod360 az)%Q in
  let '(cd, sd) := cos_sin dip in
  (ct * cd, st * cd, sd)%Q.

Definition opt_veqb (a b : option V3) : bool := option_eqb veqb a b.

(* observed: locations array and desurvey of each query depth *)
Definition desurvey_agree (collar : V3) (s : list (Q * azdip)) (queries : list Q)
           (obs_locs : list V3) (obs : list V3) : bool :=
  vlist_eqb (locations dir_exact collar s) obs_locs
  && list_eqb opt_veqb (map (desurvey dir_exact collar s) queries) (map (@Some V3) obs).
