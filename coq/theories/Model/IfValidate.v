(* IfValidate — hand model of the validating InputFile (validate=True): the rule tables an InputFile keeps across successive
   ui_json assignments, the `data` setter and `set_data_value`  (property C15).  Definitions only.

   Python transcribed (geoh5py/ui_json/input_file.py, validation.py):
     InputFile.validations getter/setter, ui_json setter          -> if_assign      (self.validations accumulates across forms)
     InputFile.validators (lazy InputValidation), infer_validations, _merge_validations -> if_table
     InputFile.data setter (promotion, validate_data)             -> if_data_verdict
     InputFile.set_data_value                                     -> if_set_verdict
   _validations_from_uijson is PyLite output (coq/generated/PyLite_Validation.v), base_validations is extracted from
   constants.py (coq/generated/Table_UiValidations.v).  The models are FUNCTIONS of (the form as assigned, the rule table
   accumulated so far, the data, the value): whatever else the implementation lets leak from earlier forms or earlier
   InputFiles of the process shows up as a disagreement of the histories run by tools/props/c15.py (kinds "infer", "ifv").
   No theorem is stated about this file: it is a correspondence model.
   OUTSIDE the model (probed on /repo 73a6b77): a REJECTED `ifile.data = d` leaves the stored data and the forms unchanged, but the
   caller's dictionary d has been promoted in place (identifiers replaced by entities) and `_geoh5` / the cached InputValidation
   are set - effects on the argument and on caches, not on the stored data or the form the property speaks about; the model's
   [promote] is functional.  The lazy `.data` getter restores update_enabled after a failed load (try/finally-free code, but the
   assignment after the failing statement is not reached only when flatten itself raises; not reproduced). *)
From Coq Require Import String.
From GV Require Import Prelude.Base Model.PyVal Model.UiRules Model.Enforcers Model.UiForms Model.UiCodec.
From GVgen Require Import PyLite_SharedUtils PyLite_UiUtils PyLite_Validators PyLite_Validation Table_UiValidations.
Local Open Scope string_scope.

Definition dflt_opts : iv_opts := {| ignore_requirements := false; ignore_list := [] |}.

(* the ui_json setter: for key, rules in inferred: self.validations[key] = {**rules, **self.validations[key]} if present else rules *)
Definition if_assign_selfvals (selfvals ui : pv) : res pv :=
  inf <- InputValidation__validations_from_uijson ui ;;
  items <- dict_items inf ;;
  fold_res (fun sv '(k, r) =>
     has <- contains k sv ;;
     r' <- (if has then old <- getitem sv k ;; dict_update r old else Ok r) ;;
     setitem sv k r') items selfvals.

(* InputValidation(ui_json=ui, validations=selfvals): _merge_validations(inferred, selfvals) *)
Definition if_table (selfvals ui : pv) : res pv :=
  inf <- InputValidation__validations_from_uijson ui ;;
  items <- dict_items selfvals ;;
  fold_res (fun out '(k, val) =>
     has <- contains k out ;;
     if has then cur <- getitem out k ;; upd <- dict_update cur val ;; setitem out k upd
     else setitem out k val) items inf.

(* one assignment `ifile.ui_json = ui` (ui already numified): new (selfvals, table) *)
Definition if_assign (selfvals ui : pv) : res (pv * pv) :=
  sv <- if_assign_selfvals selfvals ui ;;
  tbl <- if_table sv ui ;;
  Ok (sv, tbl).

(* ifile.data = data  (the workspace is known): promotion with association check, then validate_data *)
Definition if_data_verdict (fuel : nat) (W : world) (table ui data : pv) : res pv :=
  n1 <- py_len data ;; n2 <- py_len ui ;;
  if negb (py_eq n1 n2) then Raise ValueError else
  d' <- promote fuel W true data ;;
  snd (iv_validate_data W dflt_opts table d').

(* ifile.set_data_value(key, value) *)
Definition if_set_verdict (W : world) (selfvals data key value : pv) : res pv :=
  known <- contains key selfvals ;;
  if negb known then Ok PNone else
  rules <- getitem selfvals key ;;
  has_a <- contains (PStr "association") rules ;;
  rules <- (if has_a then
              a <- getitem rules (PStr "association") ;;
              parent <- getitem data a ;;
              setitem rules (PStr "association") (uuid2entity W parent)
            else Ok rules) ;;
  has_o <- contains (PStr "one_of") rules ;;
  rules <- (if has_o then delitem rules (PStr "one_of") else Ok rules) ;;
  iv_validate W dflt_opts key value rules.

(* ---- histories on one InputFile object ---- *)
Inductive ifop :=
| OpAssign (ui : pv)                       (* ifile.ui_json = ui  (as numified) *)
| OpData (ui data : pv)                    (* ifile.data = data  with the current form ui *)
| OpSet (data key value : pv).             (* ifile.set_data_value(key, value) with the current data *)

Fixpoint ifv_run (fuel : nat) (W : world) (st : pv * pv) (ops : list ifop) : list (res pv) :=
  match ops with
  | [] => []
  | OpAssign ui :: r =>
      match if_assign (fst st) ui with
      | Ok st' => Ok PNone :: ifv_run fuel W st' r
      | Raise e => Raise e :: ifv_run fuel W st r
      end
  | OpData ui data :: r => if_data_verdict fuel W (snd st) ui data :: ifv_run fuel W st r
  | OpSet data key value :: r => if_set_verdict W (fst st) data key value :: ifv_run fuel W st r
  end.

Definition ifv_start : pv * pv := (base_validations_table, PDict []).

(* inference over a sequence of forms in one process: each is a function of its own form *)
Definition infer_seq (uis : list pv) : list (res pv) := map InputValidation__validations_from_uijson uis.
Definition res_list_same (a b : list (res pv)) : bool := list_eqb res_same a b.
