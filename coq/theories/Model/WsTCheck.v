(* Executable comparison of the typed workspace model with observations of the implementation (correspondence files). *)
From GV Require Import Prelude.Base Model.WsT.

Definition outcome_eqb (a b : outcome) : bool :=
  match a, b with Done, Done | Refused, Refused | Raised, Raised => true | _, _ => false end.

Definition same_set {A} (eqb : A -> A -> bool) (l1 l2 : list A) : bool :=
  Nat.eqb (length l1) (length l2) && forallb (fun x => existsb (eqb x) l2) l1 && forallb (fun x => existsb (eqb x) l1) l2.

Definition mem_row_eqb (a b : mem_row) : bool :=
  let '(e1, p1, k1, t1, pr1, n1) := a in let '(e2, p2, k2, t2, pr2, n2) := b in
  N.eqb e1 e2 && N.eqb p1 p2 && tkind_eqb k1 k2 && N.eqb t1 t2 && N.eqb pr1 pr2 && N.eqb n1 n2.
Definition reg_row_eqb (a b : N * bool) : bool := N.eqb (fst a) (fst b) && Bool.eqb (snd a) (snd b).
Definition types_row_eqb (a b : tkind * N * N * N) : bool :=
  let '(k1, t1, p1, n1) := a in let '(k2, t2, p2, n2) := b in
  tkind_eqb k1 k2 && N.eqb t1 t2 && N.eqb p1 p2 && N.eqb n1 n2.
Definition trip_eqb (a b : N * N * N) : bool :=
  let '(x1, y1, z1) := a in let '(x2, y2, z2) := b in N.eqb x1 x2 && N.eqb y1 y2 && N.eqb z1 z2.
Definition link_row_eqb (a b : N * bool * option (N * N * N)) : bool :=
  let '(e1, o1, r1) := a in let '(e2, o2, r2) := b in
  N.eqb e1 e2 && Bool.eqb o1 o2 && option_eqb trip_eqb r1 r2.

Definition obs : Type :=
  (outcome * list mem_row * list (N * bool) * list (tkind * N * N * N) * list (N * bool * option (N * N * N)))%type.

Definition obs_ok (s : st) (oc : outcome) (o : obs) : bool :=
  let '(oc', m, r, t, l) := o in
  outcome_eqb oc oc' && same_set mem_row_eqb (mem_view s) m && same_set reg_row_eqb (reg_view s) r
  && same_set types_row_eqb (types_view s) t && same_set link_row_eqb (link_view s) l.

Fixpoint check_from (s : st) (ops : list op) (exp : list obs) : bool :=
  match ops, exp with
  | [], [] => true
  | o :: ops', x :: exp' => let '(s', oc) := step s o in obs_ok s' oc x && check_from s' ops' exp'
  | _, _ => false
  end.
Definition check_history (ops : list op) (exp : list obs) : bool := check_from init ops exp.

Fixpoint first_bad (s : st) (ops : list op) (exp : list obs) (i : N) : option N :=
  match ops, exp with
  | [], [] => None
  | o :: ops', x :: exp' => let '(s', oc) := step s o in if obs_ok s' oc x then first_bad s' ops' exp' (N.succ i) else Some i
  | _, _ => Some i
  end.

Fixpoint trace (s : st) (ops : list op) : list obs :=
  match ops with
  | [] => []
  | o :: r => let '(s', oc) := step s o in
              (oc, mem_view s', reg_view s', types_view s', link_view s') :: trace s' r
  end.
