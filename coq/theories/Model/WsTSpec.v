(* Specification vocabulary for the typed layer Model/WsT.v (type clauses of C01 / C02 / C09).  Definitions only. *)
From GV Require Import Prelude.Base Model.WsT.

(* C02: the Types container holds no identifier twice (per class container), distinct nodes are distinct HDF5 objects, and
   every live entity's `Type` link IS the object stored under Types/<class of the entity>/<identifier of its type>, which is
   also the class under which the workspace registered that type *)
Record TInv (s : st) : Prop := {
  ti_ents  : NoDup (map fst (ents s));
  ti_reg   : NoDup (map fst (reg s));
  ti_types : NoDup (map fst (ftypes s));
  ti_addrs : NoDup (map (fun kn => taddr (snd kn)) (ftypes s));
  ti_next  : forall kn, In kn (ftypes s) -> (taddr (snd kn) < next s)%N;
  ti_link  : forall e en, In (e, en) (ents s) ->
               (exists a, nget (etid en) (reg s) = Some (ekind en, a)) /\
               exists n, tget (ekind en, etid en) (ftypes s) = Some n /\ nget e (fents s) = Some (taddr n)
}.

(* the stored attributes of every live entity's type are those of the live type object *)
Definition attrs_sync (s : st) : Prop :=
  forall e en k a n, In (e, en) (ents s) -> nget (etid en) (reg s) = Some (k, a) ->
    tget (ekind en, etid en) (ftypes s) = Some n -> tnattrs n = a.

(* side conditions *)
(* no entity is created under an identifier that still has a (stale) entity node -- the entity-level defect of C01, see
   Model/WsXSpec.v fresh_op *)
Definition fresh_op (s : st) (o : op) : bool :=
  match o with
  | Create e _ _ _ _ _ => match nget e (fents s) with Some _ => false | None => true end
  | _ => true
  end.
(* no caller-supplied TYPE identifier that is stale on file: the type is live (shared) or no node carries the identifier *)
Definition fresh_type_op (s : st) (o : op) : bool :=
  match o with
  | Create _ _ _ tid _ _ => alive s tid || negb (existsb (fun kn => N.eqb (snd (fst kn)) tid) (ftypes s))
  | _ => true
  end.
Fixpoint fresh_run (ops : list op) (s : st) : bool :=
  match ops with [] => true | o :: r => fresh_op s o && fresh_run r (fst (step s o)) end.
Fixpoint fresh_types_run (ops : list op) (s : st) : bool :=
  match ops with [] => true | o :: r => fresh_op s o && fresh_type_op s o && fresh_types_run r (fst (step s o)) end.

(* C09: identifiers of the type nodes / entity nodes an operation may write or delete *)
Definition after_rm (s : st) (e : N) : st :=
  let sub := sub_ids s e in
  {| ents := filter (fun p => negb (memN (fst p) sub)) (ents s); reg := reg s; ftypes := ftypes s;
     fents := filter (fun p => negb (memN (fst p) sub)) (fents s); next := next s |}.
Definition type_footprint (s : st) (o : op) : list N :=
  match o with
  | Create _ _ _ tid _ _ => [tid]                                   (* the type it introduces *)
  | SetTypeName e _ => match nget e (ents s) with Some en => [etid en] | None => [] end
  | RemoveWs e => dead_tids (after_rm s e)                          (* the types nobody uses any more *)
  | ListTypes => dead_tids s
  | RemoveParent _ | Reopen => []
  end.
Definition ent_footprint (s : st) (o : op) : list N :=
  match o with
  | Create e _ _ _ _ _ => [e]
  | RemoveWs e => sub_ids s e
  | _ => []
  end.
