(* Model for property C19 (the reader tolerates missing optional content).  Definitions only.

   Self-contained: an abstract HDF5 file as a link graph, single deletions, the layout of library-produced files,
   and a Gallina transcription of the loader path

     Workspace.open -> H5Reader.fetch_project_attributes -> Workspace.fetch_or_create_root
       -> Workspace.load_entity -> H5Reader.fetch_attributes / fetch_type_attributes / fetch_value_map / fetch_property_groups
       -> Workspace.create_entity (create_data / create_object_or_group: the decisions that can refuse or skip)
       -> Workspace.fetch_children -> H5Reader.fetch_children  (recursively)
       -> on demand: H5Reader.fetch_values / fetch_array_attribute / fetch_metadata
       -> (no Root link) H5Reader.fetch_uuids, rebuild under a new root

   Every lookup's guard (try/except KeyError, .get, `in` test) is read from GVgen.Tables_Reader, which tools/props/c19.py
   extracts with `ast` from the current source on every run.

   HDF5 as used by geoh5py and nothing more: a node has attributes, optionally a dataset payload, and named hard links to
   other nodes (name -> address).  Two names for one object are two entries with the same address.  `del g[name]` removes
   one entry, `del g.attrs[name]` one attribute.  A file is a partial map from addresses to nodes plus the address of the
   single top group.  Addresses are abstract; library-produced files are laid out ([layout]) with the canonical path of
   a node (through the flat containers) as its address, which makes the role of a node readable from its address. *)
From GV Require Import Prelude.Base.
From Coq Require Import String.
From GVgen Require Import Tables_Reader.
Local Open Scope string_scope.
Local Open Scope list_scope.

(* ------------------------------------------------------------------ keys, addresses, values *)
Inductive ekind := KGroup | KObject | KData.

Inductive key :=
| KGroups | KObjects | KDatas          (* "Groups" "Objects" "Data": flat containers and child containers; "Data" is also the values dataset of a data node, see KValues *)
| KTypes | KTF (k : ekind)             (* "Types", "Group types" / "Object types" / "Data types" *)
| KRoot | KType | KPGs | KConcat       (* "Root", "Type", "PropertyGroups", "Concatenated Data" *)
| KCmap | KVmap                        (* "Color map", "Value map" *)
| KID | KName | KPrim                  (* attributes "ID", "Name", "Primitive type" *)
| KU (n : N)                           (* a link named by an identifier "{uuid}" (ordinal of the uuid in name order) *)
| KN (s : string).                     (* any other attribute / dataset / property-group name *)

Definition ekind_eqb (a b : ekind) : bool :=
  match a, b with KGroup, KGroup | KObject, KObject | KData, KData => true | _, _ => false end.

Definition key_eqb (a b : key) : bool :=
  match a, b with
  | KGroups, KGroups | KObjects, KObjects | KDatas, KDatas | KTypes, KTypes | KRoot, KRoot | KType, KType
  | KPGs, KPGs | KConcat, KConcat | KCmap, KCmap | KVmap, KVmap | KID, KID | KName, KName | KPrim, KPrim => true
  | KTF x, KTF y => ekind_eqb x y
  | KU x, KU y => N.eqb x y
  | KN x, KN y => String.eqb x y
  | _, _ => false
  end.

Definition addr := list key.
Definition addr_eqb : addr -> addr -> bool := list_eqb key_eqb.

Inductive aval := VUid (n : N) | VStr (s : string) | VTok (n : N).
Definition aval_eqb (a b : aval) : bool :=
  match a, b with
  | VUid x, VUid y => N.eqb x y | VStr x, VStr y => String.eqb x y | VTok x, VTok y => N.eqb x y | _, _ => false
  end.

(* association lists keyed by [key] *)
Fixpoint lookup {V} (k : key) (l : list (key * V)) : option V :=
  match l with [] => None | (k', v) :: r => if key_eqb k k' then Some v else lookup k r end.
Fixpoint remove_key {V} (k : key) (l : list (key * V)) : list (key * V) :=
  match l with [] => [] | (k', v) :: r => if key_eqb k k' then remove_key k r else (k', v) :: remove_key k r end.
Definition has_key {V} (k : key) (l : list (key * V)) : bool := match lookup k l with Some _ => true | None => false end.

Definition amap := list (key * aval).
Definition amap_eqb : amap -> amap -> bool := list_eqb (pair_eqb key_eqb aval_eqb).

Record node := { n_attrs : amap; n_data : option N; n_links : list (key * addr) }.
Record h5 := { node_at : addr -> option node; top : addr }.

(* ------------------------------------------------------------------ items and single deletions *)
Inductive item := IAttr (a : addr) (k : key) | ILink (a : addr) (k : key).

Definition item_addr (x : item) : addr := match x with IAttr a _ | ILink a _ => a end.
Definition item_key (x : item) : key := match x with IAttr _ k | ILink _ k => k end.

Definition del_in_node (x : item) (n : node) : node :=
  match x with
  | IAttr _ k => {| n_attrs := remove_key k (n_attrs n); n_data := n_data n; n_links := n_links n |}
  | ILink _ k => {| n_attrs := n_attrs n; n_data := n_data n; n_links := remove_key k (n_links n) |}
  end.

Definition delete_item (f : h5) (x : item) : h5 :=
  {| node_at := fun b => if addr_eqb (item_addr x) b then option_map (del_in_node x) (node_at f b) else node_at f b;
     top := top f |}.

(* the item exists in the file *)
Definition item_inb (f : h5) (x : item) : bool :=
  match node_at f (item_addr x) with
  | None => false
  | Some n => match x with IAttr _ k => has_key k (n_attrs n) | ILink _ k => has_key k (n_links n) end
  end.
Definition item_in (f : h5) (x : item) : Prop := item_inb f x = true.

(* ------------------------------------------------------------------ results *)
Inductive err := KeyError | TypeError | AttributeError | UserWarning | FileNotFoundError | OutOfFuel.
Inductive res (A : Type) := Ok (a : A) | Err (e : err).
Arguments Ok {A} a. Arguments Err {A} e.
Definition bind {A B} (r : res A) (k : A -> res B) : res B := match r with Ok a => k a | Err e => Err e end.
Notation "'do' x <- r ; k" := (bind r (fun x => k)) (at level 200, x pattern, r at level 100, k at level 200, right associativity).

Definition err_eqb (a b : err) : bool :=
  match a, b with
  | KeyError, KeyError | TypeError, TypeError | AttributeError, AttributeError | UserWarning, UserWarning
  | FileNotFoundError, FileNotFoundError
  | OutOfFuel, OutOfFuel => true
  | _, _ => false
  end.

(* ------------------------------------------------------------------ guards, from the extracted table *)
Inductive gkind := GNone | GGet | GIn | GTry | GIter | GHandled | GMissing.

Definition gkind_of_string (s : string) : gkind :=
  if String.eqb s "none" then GNone else if String.eqb s "get" then GGet else if String.eqb s "in" then GIn
  else if String.eqb s "try" then GTry else if String.eqb s "iter" then GIter else if String.eqb s "handled" then GHandled
  else GMissing.

(* a row of Tables_Reader.reader_rows is (function, site, guard, on-miss, file:line) *)
Fixpoint row_guard (fn site : string) (rows : list (string * string * string * string * string)) : gkind :=
  match rows with
  | [] => GMissing
  | (f, s, g, _, _) :: r => if String.eqb f fn && String.eqb s site then gkind_of_string g else row_guard fn site r
  end.
Fixpoint row_miss (fn site : string) (rows : list (string * string * string * string * string)) : string :=
  match rows with
  | [] => "?"
  | (f, s, _, m, _) :: r => if String.eqb f fn && String.eqb s site then m else row_miss fn site r
  end.

Record guards := {
  g_fa_root : gkind;   (* fetch_attributes        h5file[name].get("Root")                         *)
  g_fa_flat : gkind;   (* fetch_attributes        h5file[name][entity_type]            (unguarded) *)
  g_fa_ent  : gkind;   (* fetch_attributes        ....get(as_str_if_uuid(uid))                     *)
  g_fa_none : gkind;   (* fetch_attributes        if entity is None: return None                   *)
  g_fa_type : gkind;   (* fetch_attributes        "Type" in entity                                 *)
  g_fa_pgs  : gkind;   (* fetch_attributes        "PropertyGroups" in entity                       *)
  g_ft_cmap : gkind;   (* fetch_type_attributes   "Color map" in type_handle                       *)
  g_ft_vmap : gkind;   (* fetch_type_attributes   "Value map" in type_handle                       *)
  g_fvm     : gkind;   (* fetch_value_map         try h5_handle["Value map"] except KeyError: {}   *)
  g_fpg     : gkind;   (* fetch_property_groups   try ...["Objects"][uid]["PropertyGroups"] ...    *)
  g_fc_flat : gkind;   (* fetch_children          entity_type not in h5file[name]  -> {}           *)
  g_fc_ent  : gkind;   (* fetch_children          uid not in h5file[name][entity_type] -> {}       *)
  g_fc_iter : gkind;   (* fetch_children          for child_type, child_list in entity.items()     *)
  g_fv      : gkind;   (* fetch_values            try ...["Data"][uid]["Data"] except KeyError     *)
  g_faa     : gkind;   (* fetch_array_attribute   try ...[entity_type][uid][label] except KeyError *)
  g_fm      : gkind;   (* fetch_metadata          try ...[entity_type][uid][argument] except ...   *)
  g_fu      : gkind;   (* fetch_uuids             try ...[entity_type] except KeyError: []         *)
  g_ws_root : gkind;   (* Workspace.fetch_or_create_root  root is not None ... else: rebuild       *)
  g_ws_load : gkind;   (* Workspace.load_entity           if attributes is None: return None       *)
  g_ws_kid  : gkind    (* Workspace.fetch_children        if not (recovered_object is None or ...) *)
}.

Definition guards_of (rows : list (string * string * string * string * string)) : guards :=
  {| g_fa_root := row_guard "H5Reader.fetch_attributes" "get:<etype>" rows;
     g_fa_flat := row_guard "H5Reader.fetch_attributes" "sub:<etype>" rows;
     g_fa_ent  := row_guard "H5Reader.fetch_attributes" "get:<uid>" rows;
     g_fa_none := row_guard "H5Reader.fetch_attributes" "none:entity" rows;
     g_fa_type := row_guard "H5Reader.fetch_attributes" "in:'Type'" rows;
     g_fa_pgs  := row_guard "H5Reader.fetch_attributes" "in:'PropertyGroups'" rows;
     g_ft_cmap := row_guard "H5Reader.fetch_type_attributes" "in:'Color map'" rows;
     g_ft_vmap := row_guard "H5Reader.fetch_type_attributes" "in:'Value map'" rows;
     g_fvm     := row_guard "H5Reader.fetch_value_map" "sub:'Value map'" rows;
     g_fpg     := row_guard "H5Reader.fetch_property_groups" "sub:'PropertyGroups'" rows;
     g_fc_flat := row_guard "H5Reader.fetch_children" "in:<etype>" rows;
     g_fc_ent  := row_guard "H5Reader.fetch_children" "in:<uid>" rows;
     g_fc_iter := row_guard "H5Reader.fetch_children" "iter:entity.items" rows;
     g_fv      := row_guard "H5Reader.fetch_values" "sub:'Data'#2" rows;
     g_faa     := row_guard "H5Reader.fetch_array_attribute" "sub:<label>" rows;
     g_fm      := row_guard "H5Reader.fetch_metadata" "sub:<label>" rows;
     g_fu      := row_guard "H5Reader.fetch_uuids" "sub:<etype>" rows;
     g_ws_root := row_guard "Workspace.fetch_or_create_root" "none:root" rows;
     g_ws_load := row_guard "Workspace.load_entity" "none:attributes" rows;
     g_ws_kid  := row_guard "Workspace.fetch_children" "none:recovered_object#2" rows |}.

(* the guards of the current source *)
Definition G : guards := guards_of reader_rows.

(* what the theorems need of the guards (checked on the extracted table by vm_compute in Properties/C19.v) *)
Definition absorbs (g : gkind) : bool := match g with GGet | GIn | GTry | GHandled => true | _ => false end.
Definition gkind_eqb (a b : gkind) : bool :=
  match a, b with
  | GNone, GNone | GGet, GGet | GIn, GIn | GTry, GTry | GIter, GIter | GHandled, GHandled | GMissing, GMissing => true
  | _, _ => false
  end.
Definition guards_okb (g : guards) : bool :=
  gkind_eqb (g_fa_root g) GGet && gkind_eqb (g_fa_flat g) GNone && gkind_eqb (g_fa_ent g) GGet
  && gkind_eqb (g_fa_none g) GHandled && gkind_eqb (g_fa_type g) GIn && gkind_eqb (g_fa_pgs g) GIn
  && gkind_eqb (g_ft_cmap g) GIn && gkind_eqb (g_ft_vmap g) GIn && gkind_eqb (g_fvm g) GTry && gkind_eqb (g_fpg g) GTry
  && gkind_eqb (g_fc_flat g) GIn && gkind_eqb (g_fc_ent g) GIn && gkind_eqb (g_fc_iter g) GIter
  && gkind_eqb (g_fv g) GTry && gkind_eqb (g_faa g) GTry && gkind_eqb (g_fm g) GTry && gkind_eqb (g_fu g) GTry
  && gkind_eqb (g_ws_root g) GHandled && gkind_eqb (g_ws_load g) GHandled && gkind_eqb (g_ws_kid g) GHandled.

(* the guards the proofs were written against *)
Definition G0 : guards :=
  {| g_fa_root := GGet; g_fa_flat := GNone; g_fa_ent := GGet; g_fa_none := GHandled; g_fa_type := GIn; g_fa_pgs := GIn;
     g_ft_cmap := GIn; g_ft_vmap := GIn; g_fvm := GTry; g_fpg := GTry; g_fc_flat := GIn; g_fc_ent := GIn; g_fc_iter := GIter;
     g_fv := GTry; g_faa := GTry; g_fm := GTry; g_fu := GTry; g_ws_root := GHandled; g_ws_load := GHandled; g_ws_kid := GHandled |}.

(* a guarded lookup: a miss is absorbed (None) when the site is guarded, raises KeyError otherwise *)
Definition glookup {A} (g : gkind) (o : option A) : res (option A) :=
  match o with
  | Some a => Ok (Some a)
  | None => if absorbs g then Ok None else Err KeyError
  end.

(* ------------------------------------------------------------------ what the reader returns *)
Inductive uid := U (n : N) | Fresh (a : addr).     (* Fresh a: uuid4() drawn because the node at [a] carries no ID *)
Definition uid_eqb (a b : uid) : bool :=
  match a, b with U x, U y => N.eqb x y | Fresh x, Fresh y => addr_eqb x y | _, _ => false end.

Inductive rkind := RRoot | RGroup | RObject | RData.
Definition rkind_eqb (a b : rkind) : bool :=
  match a, b with RRoot, RRoot | RGroup, RGroup | RObject, RObject | RData, RData => true | _, _ => false end.

Record tview := { tv_attrs : amap; tv_cmap : option (amap * option N); tv_vmap : option (option N) }.
Definition tview_eqb (a b : tview) : bool :=
  amap_eqb (tv_attrs a) (tv_attrs b)
  && option_eqb (pair_eqb amap_eqb (option_eqb N.eqb)) (tv_cmap a) (tv_cmap b)
  && option_eqb (option_eqb N.eqb) (tv_vmap a) (tv_vmap b).

Record erec := {
  r_uid : uid; r_kind : rkind; r_parent : option uid;
  r_attrs : amap;                         (* attributes read from the node; an absent one takes the class default *)
  r_type : option tview;                  (* what was read through the Type link *)
  r_pgs : list (key * amap);              (* property groups *)
  r_dsets : option (list (key * N))       (* what the lazy getters return per dataset label; None: the getter raises *)
}.
Definition erec_eqb (a b : erec) : bool :=
  uid_eqb (r_uid a) (r_uid b) && rkind_eqb (r_kind a) (r_kind b) && option_eqb uid_eqb (r_parent a) (r_parent b)
  && amap_eqb (r_attrs a) (r_attrs b) && option_eqb tview_eqb (r_type a) (r_type b)
  && list_eqb (pair_eqb key_eqb amap_eqb) (r_pgs a) (r_pgs b)
  && option_eqb (list_eqb (pair_eqb key_eqb N.eqb)) (r_dsets a) (r_dsets b).

Record tree := { t_proj : amap; t_root : uid; t_ents : list erec }.

Fixpoint find_rec (u : uid) (l : list erec) : option erec :=
  match l with [] => None | r :: l' => if uid_eqb (r_uid r) u then Some r else find_rec u l' end.

(* ------------------------------------------------------------------ the reader *)
Definition flat_key (k : ekind) : key := match k with KGroup => KGroups | KObject => KObjects | KData => KDatas end.
Definition rkind_of (k : ekind) : rkind := match k with KGroup => RGroup | KObject => RObject | KData => RData end.
Definition ekind_of (r : rkind) : ekind := match r with RRoot | RGroup => KGroup | RObject => KObject | RData => KData end.

Definition get_link (f : h5) (a : addr) (k : key) : option addr :=
  match node_at f a with Some n => lookup k (n_links n) | None => None end.
(* h5py subscript: the node behind a link *)
Definition sub (f : h5) (a : addr) (k : key) : option (addr * node) :=
  match get_link f a k with
  | Some b => match node_at f b with Some n => Some (b, n) | None => None end
  | None => None
  end.
Definition sub_uid (f : h5) (a : addr) (u : uid) : option (addr * node) :=
  match u with U n => sub f a (KU n) | Fresh _ => None end.

(* H5Reader.fetch_value_map / fetch_type_attributes *)
Definition fetch_type_attributes (g : guards) (f : h5) (ta : addr) (tn : node) : res tview :=
  do cm <- glookup (g_ft_cmap g) (sub f ta KCmap);
  do vm <- glookup (g_ft_vmap g) (sub f ta KVmap);
  do vm' <- match vm with
            | None => Ok None
            | Some _ => do v <- glookup (g_fvm g) (sub f ta KVmap);
                        Ok (Some (match v with Some (_, n) => n_data n | None => None end))
            end;
  Ok {| tv_attrs := n_attrs tn;
        tv_cmap := option_map (fun p : addr * node => (n_attrs (snd p), n_data (snd p))) cm;
        tv_vmap := vm' |}.

(* H5Reader.fetch_property_groups: always through h5file[name]["Objects"][uid]["PropertyGroups"] *)
Definition pg_list (f : h5) (pa : addr) (pn : node) : list (key * amap) :=
  flat_map (fun l : key * addr => match node_at f (snd l) with Some n => [(fst l, n_attrs n)] | None => [] end) (n_links pn).
Definition fetch_property_groups (g : guards) (f : h5) (u : uid) : res (list (key * amap)) :=
  do h <- glookup (g_fpg g)
           (match sub f (top f) KObjects with
            | Some (oa, _) => match sub_uid f oa u with Some (ea, _) => sub f ea KPGs | None => None end
            | None => None
            end);
  Ok (match h with Some (pa, pn) => pg_list f pa pn | None => [] end).

(* H5Reader.fetch_attributes.  [ek = None]: entity_type "root". *)
Definition fetch_attributes (g : guards) (f : h5) (u : uid) (ek : option ekind)
  : res (option (addr * amap * option tview * list (key * amap))) :=
  do ent <- match ek with
            | None => glookup (g_fa_root g) (sub f (top f) KRoot)
            | Some k => do c <- glookup (g_fa_flat g) (sub f (top f) (flat_key k));
                        match c with
                        | None => Ok None
                        | Some (ca, _) => glookup (g_fa_ent g) (sub_uid f ca u)
                        end
            end;
  match ent with
  | None => if absorbs (g_fa_none g) then Ok None else Err AttributeError   (* None.attrs *)
  | Some (ea, en) =>
      do ty <- glookup (g_fa_type g) (sub f ea KType);
      do tv <- match ty with None => Ok None | Some (ta, tn) => do v <- fetch_type_attributes g f ta tn; Ok (Some v) end;
      do pl <- glookup (g_fa_pgs g) (get_link f ea KPGs);
      do pgs <- match pl with None => Ok [] | Some _ => fetch_property_groups g f u end;
      Ok (Some (ea, n_attrs en, tv, pgs))
  end.

(* the lazy getters (fetch_values for data; fetch_array_attribute and fetch_metadata for groups and objects): every
   dataset label of the node at h5file[name][flat][uid]; a miss of the node gives None for every label *)
Definition dsets_of (f : h5) (n : node) : list (key * N) :=
  flat_map (fun l : key * addr =>
              match node_at f (snd l) with
              | Some m => match n_data m with Some t => [(fst l, t)] | None => [] end
              | None => []
              end) (n_links n).
Definition lazy_guard (g : guards) (k : ekind) : gkind :=
  match k with
  | KData => g_fv g
  | _ => if absorbs (g_faa g) && absorbs (g_fm g) then GTry else GNone
  end.
Definition fetch_dsets (g : guards) (f : h5) (k : ekind) (u : uid) : option (list (key * N)) :=
  match glookup (lazy_guard g k)
          (match sub f (top f) (flat_key k) with Some (ca, _) => sub_uid f ca u | None => None end) with
  | Ok (Some (_, n)) => Some (dsets_of f n)
  | Ok None => Some []
  | Err _ => None
  end.

(* Workspace.create_entity: the decisions of create_data / create_object_or_group that can refuse (raise) or skip (None).
   [object_classes] (extracted by reflection): type uid of every object class and whether its __init__ takes `name`
   first; ObjectBase appends name=<class name> after on_file=True otherwise, and the name setter then writes. *)
Fixpoint class_name_first (t : string) (l : list (string * string * bool)) : option bool :=
  match l with [] => None | (u, _, b) :: r => if String.eqb u t then Some b else class_name_first t r end.

Definition uid_of_attrs (ea : addr) (attrs : amap) : uid :=
  match lookup KID attrs with Some (VUid n) => U n | _ => Fresh ea end.

Definition type_id (tv : option tview) : option aval := match tv with Some v => lookup KID (tv_attrs v) | None => None end.

Definition create_entity (f : h5) (g : guards) (rk : rkind) (ea : addr) (attrs : amap) (tv : option tview)
           (pgs : list (key * amap)) (parent : option uid) : res (option erec) :=
  let u := uid_of_attrs ea attrs in
  let mk (p : list (key * amap)) :=
      {| r_uid := u; r_kind := rk; r_parent := parent; r_attrs := attrs; r_type := tv; r_pgs := p;
         r_dsets := fetch_dsets g f (ekind_of rk) u |} in
  match rk with
  | RRoot => Ok (Some (mk []))                                   (* RootGroup.find_or_create_type: default type uid *)
  | RGroup => match type_id tv with
              | Some _ => Ok (Some (mk []))                      (* a known class, or CustomGroup *)
              | None => Err TypeError                            (* abstract Group instantiated *)
              end
  | RObject => match type_id tv with
               | Some (VStr t) =>
                   match class_name_first t object_classes with
                   | None => Ok None                             (* no class for this type uid *)
                   | Some first => if first || has_key KName attrs then Ok (Some (mk pgs))
                                   else Err UserWarning          (* default name written after on_file=True, mode "r" *)
                   end
               | Some _ => Ok None
               | None => Err TypeError                           (* abstract ObjectBase instantiated *)
               end
  | RData => match tv with
             | Some v => if has_key KPrim (tv_attrs v) then Ok (Some (mk [])) else Ok None
             | None => Ok None                                   (* no primitive type: no Data class matches *)
             end
  end.

(* Workspace.load_entity (the registry test `get_entity(uid)` is made by the callers below) *)
Definition load_entity (g : guards) (f : h5) (u : uid) (ek : option ekind) (parent : option uid) : res (option erec) :=
  do a <- fetch_attributes g f u ek;
  match a with
  | None => if absorbs (g_ws_load g) then Ok None else Err TypeError
  | Some (ea, attrs, tv, pgs) =>
      create_entity f g (match ek with None => RRoot | Some k => rkind_of k end) ea attrs tv pgs parent
  end.

(* H5Reader.fetch_children: {uid: type} in iteration order *)
Definition ctype_of (k : key) : option ekind :=
  match k with KDatas => Some KData | KGroups => Some KGroup | KObjects => Some KObject | _ => None end.
Definition kids_of_container (f : h5) (l : key * addr) : list (N * ekind) :=
  match ctype_of (fst l), node_at f (snd l) with
  | Some ck, Some cn =>
      match n_data cn with
      | None => flat_map (fun e : key * addr => match fst e with KU m => [(m, ck)] | _ => [] end) (n_links cn)
      | Some _ => []                                             (* a dataset named "Data": not an h5py.Group *)
      end
  | _, _ => []
  end.
Definition fetch_children (g : guards) (f : h5) (u : uid) (k : ekind) : res (list (N * ekind)) :=
  do c <- glookup (g_fc_flat g) (sub f (top f) (flat_key k));
  match c with
  | None => Ok []
  | Some (ca, _) =>
      do e <- glookup (g_fc_ent g) (sub_uid f ca u);
      match e with
      | None => Ok []
      | Some (_, en) => Ok (flat_map (kids_of_container f) (n_links en))
      end
  end.

(* Workspace.fetch_children(entity, recursively=True) with the registry of already created entities.
   An identifier already registered is not loaded again (get_entity hit); the implementation then descends again into
   that entity's children, which creates nothing new (every reachable identifier is registered or fails as before), so
   the model stops there. *)
Fixpoint seq_load {X} (step : list uid -> X -> res (list erec * list uid)) (l : list X) (reg : list uid)
  : res (list erec * list uid) :=
  match l with
  | [] => Ok ([], reg)
  | x :: l' =>
      match step reg x with
      | Err e => Err e
      | Ok (r1, reg1) =>
          match seq_load step l' reg1 with
          | Err e => Err e
          | Ok (r2, reg2) => Ok (r1 ++ r2, reg2)
          end
      end
  end.

Definition mem_uid (u : uid) (l : list uid) : bool := existsb (uid_eqb u) l.
Definition is_container (k : ekind) : bool := match k with KData => false | _ => true end.

Fixpoint load_ent (fuel : nat) (g : guards) (f : h5) (reg : list uid) (c : N * ekind) (parent : option uid)
  : res (list erec * list uid) :=
  match fuel with
  | O => Err OutOfFuel
  | S n =>
      if mem_uid (U (fst c)) reg then Ok ([], reg)
      else
        do v <- load_entity g f (U (fst c)) (Some (snd c)) parent;
        match v with
        | None => if absorbs (g_ws_kid g) then Ok ([], reg) else Err AttributeError   (* None.on_file *)
        | Some r =>
            if is_container (snd c) then
              do kids <- fetch_children g f (r_uid r) (snd c);
              match seq_load (fun reg' c' => load_ent n g f reg' c' (Some (r_uid r))) kids (r_uid r :: reg) with
              | Err e => Err e
              | Ok (sub, reg') => Ok (r :: sub, reg')
              end
            else Ok ([r], r_uid r :: reg)
        end
  end.

(* H5Reader.fetch_uuids *)
Definition fetch_uuids (g : guards) (f : h5) (k : ekind) : res (list (N * ekind)) :=
  do c <- glookup (g_fu g) (sub f (top f) (flat_key k));
  Ok (match c with
      | Some (_, cn) => flat_map (fun e : key * addr => match fst e with KU m => [(m, k)] | _ => [] end) (n_links cn)
      | None => []
      end).

(* Does fetch_or_create_root, when it rebuilds the root, first scan every flat entry's child containers (H5Reader.fetch_children)
   and attach to the new root only the entries that are nobody's child?  The pinned source does not (it attaches every
   entry met in identifier order); fixes/C19-root-rebuild-keeps-hierarchy.patch does.  Read off the extracted table so that
   correspondence runs the variant of the source that is checked ([load] takes the variant as a parameter). *)
Definition nested_scan : bool :=
  gkind_eqb (row_guard "Workspace.fetch_or_create_root" "ref:H5Reader.fetch_children" reader_rows) GHandled.
Fixpoint nested_of (g : guards) (f : h5) (l : list (N * ekind)) : res (list (N * ekind)) :=
  match l with
  | [] => Ok []
  | c :: r => do a <- fetch_children g f (U (fst c)) (snd c); do b <- nested_of g f r; Ok (a ++ b)
  end.

(* Workspace.open: fetch_project_attributes, then fetch_or_create_root *)
Definition new_root : erec :=
  {| r_uid := Fresh [KRoot]; r_kind := RRoot; r_parent := None; r_attrs := []; r_type := None; r_pgs := []; r_dsets := Some [] |}.

Definition load (fuel : nat) (g : guards) (nested : bool) (f : h5) : res tree :=
  match node_at f (top f) with
  | None => Err FileNotFoundError
  | Some tn =>
      do rv <- load_entity g f (Fresh [KRoot; KRoot]) None None;
      match rv with
      | Some r =>
          do kids <- fetch_children g f (r_uid r) KGroup;
          match seq_load (fun reg c => load_ent fuel g f reg c (Some (r_uid r))) kids [r_uid r] with
          | Err e => Err e
          | Ok (sub, _) => Ok {| t_proj := n_attrs tn; t_root := r_uid r; t_ents := r :: sub |}
          end
      | None =>
          if absorbs (g_ws_root g) then
            do gs <- fetch_uuids g f KGroup;
            do os <- fetch_uuids g f KObject;
            do nest <- (if nested then nested_of g f (gs ++ os) else Ok []);
            let tops := filter (fun c : N * ekind => negb (existsb (fun d : N * ekind => N.eqb (fst d) (fst c)) nest)) (gs ++ os) in
            match seq_load (fun reg c => load_ent fuel g f reg c (Some (r_uid new_root))) tops [r_uid new_root] with
            | Err e => Err e
            | Ok (sub, _) => Ok {| t_proj := n_attrs tn; t_root := r_uid new_root; t_ents := new_root :: sub |}
            end
          else Err AttributeError
      end
  end.

(* ------------------------------------------------------------------ library-produced files: a tree of entities, laid out *)
Record tspec := { ts_attrs : amap; ts_cmap : option (amap * N); ts_vmap : option N }.

Inductive etree :=
  ET (u : N) (k : ekind) (attrs : amap) (ty : N) (dsets : list (key * N)) (pgs : option (list (key * amap)))
     (conts : list ekind) (kids : list etree).

Definition et_uid (t : etree) := match t with ET u _ _ _ _ _ _ _ => u end.
Definition et_kind (t : etree) := match t with ET _ k _ _ _ _ _ _ => k end.
Definition et_attrs (t : etree) := match t with ET _ _ a _ _ _ _ _ => a end.
Definition et_ty (t : etree) := match t with ET _ _ _ ty _ _ _ _ => ty end.
Definition et_dsets (t : etree) := match t with ET _ _ _ _ d _ _ _ => d end.
Definition et_pgs (t : etree) := match t with ET _ _ _ _ _ p _ _ => p end.
Definition et_conts (t : etree) := match t with ET _ _ _ _ _ _ c _ => c end.
Definition et_kids (t : etree) := match t with ET _ _ _ _ _ _ _ ks => ks end.

Fixpoint subtrees (t : etree) : list etree :=
  match t with ET _ _ _ _ _ _ _ kids => t :: flat_map subtrees kids end.
Fixpoint depth (t : etree) : nat :=
  match t with ET _ _ _ _ _ _ _ kids => S (fold_right Nat.max 0 (map depth kids)) end.

(* a whole file: project attributes, the three type tables (name ordinal -> type node), the entity tree under the root *)
Record fspec := { fs_proj : amap; fs_types : ekind -> list (N * tspec); fs_root : etree }.

Definition find_ent (s : fspec) (k : ekind) (u : N) : option etree :=
  find (fun t => ekind_eqb (et_kind t) k && N.eqb (et_uid t) u) (subtrees (fs_root s)).
Fixpoint lookupN {V} (n : N) (l : list (N * V)) : option V :=
  match l with [] => None | (m, v) :: r => if N.eqb n m then Some v else lookupN n r end.

(* insertion sort of identifiers: h5py iterates a group in name order *)
Fixpoint insertN (n : N) (l : list N) : list N :=
  match l with [] => [n] | m :: r => if N.leb n m then n :: l else m :: insertN n r end.
Definition sortN (l : list N) : list N := fold_right insertN [] l.

Definition ents_of_kind (s : fspec) (k : ekind) : list N :=
  sortN (map et_uid (filter (fun t => ekind_eqb (et_kind t) k) (subtrees (fs_root s)))).

Definition group_node (links : list (key * addr)) : node := {| n_attrs := []; n_data := None; n_links := links |}.
Definition dset_node (attrs : amap) (t : N) : node := {| n_attrs := attrs; n_data := Some t; n_links := [] |}.

Definition ent_addr (k : ekind) (u : N) : addr := [flat_key k; KU u].
Definition type_addr (k : ekind) (t : N) : addr := [KTypes; KTF k; KU t].

Definition kids_of_kind (t : etree) (k : ekind) : list etree := filter (fun c => ekind_eqb (et_kind c) k) (et_kids t).

Definition ent_node (t : etree) : node :=
  let a := ent_addr (et_kind t) (et_uid t) in
  {| n_attrs := et_attrs t; n_data := None;
     n_links := (KType, type_addr (et_kind t) (et_ty t))
                :: (match et_pgs t with Some _ => [(KPGs, a ++ [KPGs])] | None => [] end)
                ++ map (fun ck => (flat_key ck, a ++ [flat_key ck])) (et_conts t)
                ++ map (fun d : key * N => (fst d, a ++ [fst d])) (et_dsets t) |}.

Definition type_node (k : ekind) (t : N) (ts : tspec) : node :=
  {| n_attrs := ts_attrs ts; n_data := None;
     n_links := (match ts_cmap ts with Some _ => [(KCmap, type_addr k t ++ [KCmap])] | None => [] end)
                ++ (match ts_vmap ts with Some _ => [(KVmap, type_addr k t ++ [KVmap])] | None => [] end) |}.

Definition top_node (s : fspec) : node :=
  {| n_attrs := fs_proj s; n_data := None;
     n_links := [(KDatas, [KDatas]); (KGroups, [KGroups]); (KObjects, [KObjects]);
                 (KRoot, ent_addr KGroup (et_uid (fs_root s))); (KTypes, [KTypes])] |}.

Definition kind_of_flat (k : key) : option ekind :=
  match k with KGroups => Some KGroup | KObjects => Some KObject | KDatas => Some KData | _ => None end.

(* the node under an entity node: a child container, the PropertyGroups container, or a dataset *)
Definition under_entity (t : etree) (k2 : key) : option node :=
  let a := ent_addr (et_kind t) (et_uid t) in
  match lookup k2 (et_dsets t) with
  | Some tok => Some (dset_node [] tok)
  | None =>
      match k2 with
      | KPGs => match et_pgs t with
                | Some pgs => Some (group_node (map (fun p : key * amap => (fst p, a ++ [KPGs; fst p])) pgs))
                | None => None
                end
      | _ => match kind_of_flat k2 with
             | Some ck => if existsb (ekind_eqb ck) (et_conts t)
                          then Some (group_node (map (fun c => (KU (et_uid c), ent_addr ck (et_uid c))) (kids_of_kind t ck)))
                          else None
             | None => None
             end
      end
  end.

Definition layout_at (s : fspec) (a : addr) : option node :=
  match a with
  | [] => Some (top_node s)
  | [KTypes] => Some (group_node [(KTF KData, [KTypes; KTF KData]); (KTF KGroup, [KTypes; KTF KGroup]); (KTF KObject, [KTypes; KTF KObject])])
  | [KTypes; KTF k] => Some (group_node (map (fun p : N * tspec => (KU (fst p), type_addr k (fst p))) (fs_types s k)))
  | [KTypes; KTF k; KU t] => option_map (type_node k t) (lookupN t (fs_types s k))
  | [KTypes; KTF k; KU t; KCmap] =>
      match lookupN t (fs_types s k) with
      | Some ts => match ts_cmap ts with Some (ca, tok) => Some (dset_node ca tok) | None => None end
      | None => None
      end
  | [KTypes; KTF k; KU t; KVmap] =>
      match lookupN t (fs_types s k) with
      | Some ts => match ts_vmap ts with Some tok => Some (dset_node [] tok) | None => None end
      | None => None
      end
  | [fk] => match kind_of_flat fk with
            | Some k => Some (group_node (map (fun u => (KU u, ent_addr k u)) (ents_of_kind s k)))
            | None => None
            end
  | [fk; KU u] => match kind_of_flat fk with
                  | Some k => option_map ent_node (find_ent s k u)
                  | None => None
                  end
  | [fk; KU u; k2] => match kind_of_flat fk with
                      | Some k => match find_ent s k u with Some t => under_entity t k2 | None => None end
                      | None => None
                      end
  | [fk; KU u; KPGs; pk] =>
      match kind_of_flat fk with
      | Some k => match find_ent s k u with
                  | Some t => match et_pgs t with
                              | Some pgs => option_map (fun pa : amap => {| n_attrs := pa; n_data := None; n_links := [] |}) (lookup pk pgs)
                              | None => None
                              end
                  | None => None
                  end
      | None => None
      end
  | _ => None
  end.

Definition layout (s : fspec) : h5 := {| node_at := layout_at s; top := [] |}.

(* every address that holds a node, and every item, of a laid-out file *)
Definition type_addrs (s : fspec) (k : ekind) : list addr :=
  flat_map (fun p : N * tspec =>
              type_addr k (fst p)
              :: (match ts_cmap (snd p) with Some _ => [type_addr k (fst p) ++ [KCmap]] | None => [] end)
              ++ (match ts_vmap (snd p) with Some _ => [type_addr k (fst p) ++ [KVmap]] | None => [] end)) (fs_types s k).
Definition ent_addrs (t : etree) : list addr :=
  let a := ent_addr (et_kind t) (et_uid t) in
  a :: map (fun d : key * N => a ++ [fst d]) (et_dsets t)
    ++ (match et_pgs t with Some pgs => (a ++ [KPGs]) :: map (fun p : key * amap => a ++ [KPGs; fst p]) pgs | None => [] end)
    ++ map (fun ck => a ++ [flat_key ck]) (et_conts t).
Definition addresses (s : fspec) : list addr :=
  [[]; [KDatas]; [KGroups]; [KObjects]; [KTypes]; [KTypes; KTF KData]; [KTypes; KTF KGroup]; [KTypes; KTF KObject]]
  ++ type_addrs s KData ++ type_addrs s KGroup ++ type_addrs s KObject
  ++ flat_map ent_addrs (subtrees (fs_root s)).
Definition items_at (f : h5) (a : addr) : list item :=
  match node_at f a with
  | Some n => map (fun p : key * aval => IAttr a (fst p)) (n_attrs n) ++ map (fun p : key * addr => ILink a (fst p)) (n_links n)
  | None => []
  end.
Definition items (s : fspec) : list item := flat_map (items_at (layout s)) (addresses s).

(* ------------------------------------------------------------------ the intact content (decoded from the spec, not through the reader) *)
Definition tview_of (ts : tspec) : tview :=
  {| tv_attrs := ts_attrs ts;
     tv_cmap := option_map (fun c : amap * N => (fst c, Some (snd c))) (ts_cmap ts);
     tv_vmap := option_map (fun v : N => Some v) (ts_vmap ts) |}.

Definition rec_of (s : fspec) (root : bool) (t : etree) (parent : option uid) : erec :=
  {| r_uid := U (et_uid t); r_kind := if root then RRoot else rkind_of (et_kind t); r_parent := parent;
     r_attrs := et_attrs t;
     r_type := option_map tview_of (lookupN (et_ty t) (fs_types s (et_kind t)));
     r_pgs := match et_kind t, et_pgs t with KObject, Some p => p | _, _ => [] end;
     r_dsets := Some (et_dsets t) |}.

Fixpoint flat_recs (s : fspec) (t : etree) (parent : option uid) : list erec :=
  match t with
  | ET u _ _ _ _ _ _ kids => rec_of s false t parent :: flat_map (fun c => flat_recs s c (Some (U u))) kids
  end.

Definition abs (s : fspec) : tree :=
  let t := fs_root s in
  {| t_proj := fs_proj s; t_root := U (et_uid t);
     t_ents := rec_of s true t None :: flat_map (fun c => flat_recs s c (Some (U (et_uid t)))) (et_kids t) |}.

(* ------------------------------------------------------------------ comparing what was read with the intact content *)
Definition agree_outside (proj_too : bool) (A : list N) (t t0 : tree) : Prop :=
  (proj_too = true -> t_proj t = t_proj t0)
  /\ forall u, ~ In u A -> find_rec (U u) (t_ents t) = find_rec (U u) (t_ents t0).

Definition memN (n : N) (l : list N) : bool := existsb (N.eqb n) l.
Definition in_set (A : list N) (r : erec) : bool := match r_uid r with U n => memN n A | Fresh _ => false end.
Definition prune (A : list N) (t0 : tree) : tree :=
  {| t_proj := t_proj t0; t_root := t_root t0; t_ents := filter (fun r => negb (in_set A r)) (t_ents t0) |}.

Definition tree_eqb (a b : tree) : bool :=
  amap_eqb (t_proj a) (t_proj b) && uid_eqb (t_root a) (t_root b) && list_eqb erec_eqb (t_ents a) (t_ents b).

(* executable forms, for the correspondence and the witnesses *)
Definition all_uids (s : fspec) : list N := map et_uid (subtrees (fs_root s)).
Definition agree_outsideb (s : fspec) (proj_too : bool) (A : list N) (t t0 : tree) : bool :=
  (negb proj_too || amap_eqb (t_proj t) (t_proj t0))
  && forallb (fun u => memN u A || option_eqb erec_eqb (find_rec (U u) (t_ents t)) (find_rec (U u) (t_ents t0))) (all_uids s)
  && forallb (fun r => match r_uid r with U n => memN n (all_uids s) | Fresh _ => true end) (t_ents t).

(* ------------------------------------------------------------------ correspondence helpers (evaluated in the case files) *)
Definition is_some {A} (o : option A) : bool := match o with Some _ => true | None => false end.

(* the raw scan of a library-produced file is the layout of the tree reconstructed from it *)
Definition links_matchb (l1 l2 : list (key * addr)) : bool :=
  Nat.eqb (List.length l1) (List.length l2) && forallb (fun p : key * addr => option_eqb addr_eqb (lookup (fst p) l2) (Some (snd p))) l1.
Definition attrs_matchb (l1 l2 : amap) : bool :=
  Nat.eqb (List.length l1) (List.length l2) && forallb (fun p : key * aval => option_eqb aval_eqb (lookup (fst p) l2) (Some (snd p))) l1.
Definition scan_matchb (s : fspec) (sc : list (addr * amap * bool * list (key * addr))) : bool :=
  Nat.eqb (List.length sc) (List.length (addresses s))
  && forallb (fun e : addr * amap * bool * list (key * addr) =>
                match e with
                | (a, at_, d, ls) =>
                    match layout_at s a with
                    | Some n => attrs_matchb at_ (n_attrs n) && Bool.eqb d (is_some (n_data n)) && links_matchb ls (n_links n)
                    | None => false
                    end
                end) sc.

Definition subsetN (a b : list N) : bool := forallb (fun x => memN x b) a.
Definition lost_of (s : fspec) (t0 t : tree) : list N :=
  filter (fun u => is_some (find_rec (U u) (t_ents t0)) && negb (is_some (find_rec (U u) (t_ents t)))) (all_uids s).
Definition altered_of (s : fspec) (t0 t : tree) : list N :=
  filter (fun u => match find_rec (U u) (t_ents t0), find_rec (U u) (t_ents t) with
                   | Some a, Some b => negb (erec_eqb a b)
                   | _, _ => false
                   end) (all_uids s).
Definition fresh_of (t : tree) : nat :=
  List.length (filter (fun r => match r_uid r with Fresh _ => true | U _ => false end) (t_ents t)).

(* ------------------------------------------------------------------ well-formed specifications (what the library writes) *)
Definition key_of (t : etree) : N * ekind := (et_uid t, et_kind t).
Definition child_keys (t : etree) : list (N * ekind) :=
  flat_map (fun ck => map (fun c => (et_uid c, ck)) (kids_of_kind t ck)) (et_conts t).
Definition uids (t : etree) : list N := map et_uid (subtrees t).

Fixpoint nodupN (l : list N) : bool := match l with [] => true | x :: r => negb (memN x r) && nodupN r end.
Definition nk_eqb (a b : N * ekind) : bool := N.eqb (fst a) (fst b) && ekind_eqb (snd a) (snd b).

Definition dset_key_ok (k : ekind) (d : key) : bool :=
  match d with
  | KN _ => true
  | KDatas => match k with KData => true | _ => false end
  | _ => false
  end.
Fixpoint nodup_keys {V} (l : list (key * V)) : bool :=
  match l with [] => true | (k, _) :: r => negb (has_key k r) && nodup_keys r end.

Definition type_ok (s : fspec) (t : etree) : bool :=
  match lookupN (et_ty t) (fs_types s (et_kind t)) with
  | None => false
  | Some ts =>
      match et_kind t with
      | KGroup => has_key KID (ts_attrs ts)
      | KData => has_key KPrim (ts_attrs ts)
      | KObject => match lookup KID (ts_attrs ts) with
                   | Some (VStr c) => match class_name_first c object_classes with
                                      | Some b => b || has_key KName (et_attrs t)
                                      | None => false
                                      end
                   | _ => false
                   end
      end
  end.

Definition ent_ok (s : fspec) (t : etree) : bool :=
  option_eqb aval_eqb (lookup KID (et_attrs t)) (Some (VUid (et_uid t)))
  && list_eqb nk_eqb (child_keys t) (map key_of (et_kids t))
  && (match et_kind t with KData => match et_kids t, et_conts t with [], [] => true | _, _ => false end | _ => true end)
  && (match et_kind t, et_pgs t with KObject, _ => true | _, None => true | _, Some _ => false end)
  && forallb (fun d : key * N => dset_key_ok (et_kind t) (fst d)) (et_dsets t)
  && nodup_keys (et_dsets t)
  && (match et_pgs t with Some p => nodup_keys p | None => true end)
  && type_ok s t.

Definition wfb (s : fspec) : bool :=
  nodupN (uids (fs_root s))
  && ekind_eqb (et_kind (fs_root s)) KGroup
  && forallb (ent_ok s) (subtrees (fs_root s)).
Definition wf (s : fspec) : Prop := wfb s = true.

(* ------------------------------------------------------------------ the entities an item describes (with the descendants that
   hang on it), and which items the format document makes optional *)
Definition ent_at (s : fspec) (fk : key) (u : N) : option etree :=
  match kind_of_flat fk with Some k => find_ent s k u | None => None end.
Definition users (s : fspec) (k : ekind) (ty : N) : list N :=
  map et_uid (filter (fun t => ekind_eqb (et_kind t) k && N.eqb (et_ty t) ty) (subtrees (fs_root s))).
Definition of_kind_subtrees (s : fspec) (k : ekind) : list N :=
  flat_map uids (filter (fun t => ekind_eqb (et_kind t) k) (subtrees (fs_root s))).

Definition described_by (s : fspec) (x : item) : list N :=
  match item_addr x with
  | [] =>
      match x with
      | IAttr _ _ => []                                           (* a project attribute *)
      | ILink _ lk =>
          match kind_of_flat lk with
          | Some KGroup => uids (fs_root s)                       (* flat container of the groups: the root's children hang on it *)
          | Some k => of_kind_subtrees s k                        (* flat container of the objects / of the data *)
          | None => []                                            (* Types (no entity); Root is treated separately *)
          end
      end
  | [KTypes; KTF k; KU ty] => users s k ty                        (* an attribute, colour map or value map of a type *)
  | [KTypes; KTF k; KU ty; KCmap] => users s k ty                 (* an attribute of the colour map *)
  | [fk] =>
      match x, kind_of_flat fk with
      | ILink _ (KU u), Some k => match find_ent s k u with Some t => uids t | None => [] end   (* flat entry of an entity *)
      | _, _ => []                                                (* type containers *)
      end
  | [fk; KU u] =>
      match ent_at s fk u with
      | None => []
      | Some t =>
          match x with
          | IAttr _ KID => uids t                                 (* the identifier: the children are found through it *)
          | IAttr _ _ => [u]
          | ILink _ KType => uids t
          | ILink _ lk =>
              match kind_of_flat lk, lookup lk (et_dsets t) with
              | Some ck, None => flat_map uids (kids_of_kind t ck) (* a child container: the children listed in it *)
              | _, _ => [u]                                       (* a dataset, the property-group block *)
              end
          end
      end
  | [fk; KU u; k2] =>
      match ent_at s fk u with
      | None => []
      | Some t =>
          match x, kind_of_flat k2 with
          | ILink _ (KU v), Some ck => flat_map uids (filter (fun c => N.eqb (et_uid c) v) (kids_of_kind t ck))  (* entry of a child *)
          | _, _ => [u]                                           (* a property group *)
          end
      end
  | [fk; KU u; KPGs; _] => match ent_at s fk u with Some _ => [u] | None => [] end
  | _ => []
  end.

(* optional per the format document (Tables_Reader.doc_entries, extracted from docs/content/geoh5_format) and the property text:
   optional attributes, the Root link, a property-group block, a colour or value map, an empty child container;
   mandatory: identifier, name, Type link, flat containers and their entries, entries of children, datasets/attributes the
   document lists without an "optional"/"default" mark.  Anything the document does not mention is optional. *)
Fixpoint doc_optional (sec name : string) (l : list (string * string * bool)) : bool :=
  match l with
  | [] => true
  | (s0, n0, o) :: r => if String.eqb s0 sec && String.eqb n0 name then o else doc_optional sec name r
  end.
Definition sec_of (k : ekind) : string := match k with KGroup => "group" | KObject => "object" | KData => "data" end.
Definition tsec_of (k : ekind) : string := match k with KGroup => "group_type" | KObject => "object_type" | KData => "data_type" end.
Definition name_of_key (k : key) : string :=
  match k with KN n => n | KID => "ID" | KName => "Name" | KPrim => "Primitive type" | KDatas => "Data" | _ => "" end.

Definition optional (s : fspec) (x : item) : bool :=
  match item_addr x with
  | [] =>
      match x with
      | IAttr _ k => doc_optional "workspace" (name_of_key k) doc_entries
      | ILink _ KRoot => true
      | ILink _ _ => false
      end
  | [KTypes; KTF k; KU _] =>
      match x with
      | IAttr _ KID | IAttr _ KName => false
      | IAttr _ kk => doc_optional (tsec_of k) (name_of_key kk) doc_entries
      | ILink _ _ => true                                         (* colour map, value map *)
      end
  | [KTypes; KTF _; KU _; KCmap] => true
  | [_] => false                                                  (* entries of flat containers and of the type containers *)
  | [fk; KU u] =>
      match ent_at s fk u with
      | None => false
      | Some t =>
          match x with
          | IAttr _ KID | IAttr _ KName => false
          | IAttr _ kk => doc_optional (sec_of (et_kind t)) (name_of_key kk) doc_entries
          | ILink _ KType => false
          | ILink _ KPGs => true
          | ILink _ lk =>
              match kind_of_flat lk, lookup lk (et_dsets t) with
              | Some ck, None => match kids_of_kind t ck with [] => true | _ => false end     (* an empty child container *)
              | _, _ => doc_optional (sec_of (et_kind t)) (name_of_key lk) doc_entries       (* a dataset *)
              end
          end
      end
  | [_; KU _; k2] => match kind_of_flat k2 with Some _ => false | None => true end          (* child entry / property group *)
  | [_; KU _; KPGs; _] => true
  | _ => false
  end.

Definition is_root_link (x : item) : bool :=
  match x with ILink [] KRoot => true | _ => false end.

(* the two theorems of Properties/C19.v, evaluated on one deletion (a sanity check of the statements on every corpus case) *)
Definition is_proj_attr (x : item) : bool := match x with IAttr [] _ => true | _ => false end.
Definition thm_instance_okb (fuel : nat) (s : fspec) (t0 : tree) (x : item) : bool :=
  is_root_link x ||
  match load fuel G nested_scan (delete_item (layout s) x) with
  | Err e => negb (optional s x) && negb (err_eqb e OutOfFuel)
  | Ok t => agree_outsideb s (negb (is_proj_attr x)) (described_by s x) t t0
  end.

Definition renorm_parent (s : fspec) (r : erec) : erec :=
  match r_parent r with
  | Some (Fresh [KRoot]) =>
      {| r_uid := r_uid r; r_kind := r_kind r; r_parent := Some (U (et_uid (fs_root s))); r_attrs := r_attrs r;
         r_type := r_type r; r_pgs := r_pgs r; r_dsets := r_dsets r |}
  | _ => r
  end.

(* "the model, run on this deletion, yields this observation": error kind, set of lost entities, number of entities with
   a new identifier; the observed altered entities are among those the model alters (an attribute equal to its class
   default leaves no observable difference) and the project attributes change only if the model says so *)
Definition check_obs (fuel : nat) (s : fspec) (t0 : tree) (x : item) (oerr : option err) (lost alt : list N) (fresh : nat)
           (proj : bool) : bool :=
  item_inb (layout s) x && thm_instance_okb fuel s t0 x &&
  match load fuel G nested_scan (delete_item (layout s) x), oerr with
  | Err e, Some e' => err_eqb e e'
  | Ok t, None =>
      let ml := lost_of s t0 t in
      subsetN ml lost && subsetN lost ml
      && (if is_root_link x
          then (* the root is rebuilt: "child of the root" is compared as such, and the altered set exactly *)
            let t' := {| t_proj := t_proj t; t_root := t_root t; t_ents := map (renorm_parent s) (t_ents t) |} in
            subsetN alt (altered_of s t0 t') && subsetN (altered_of s t0 t') alt
          else subsetN alt (altered_of s t0 t))
      && Nat.eqb (fresh_of t) fresh
      && (negb proj || negb (amap_eqb (t_proj t) (t_proj t0)))
  | _, _ => false
  end.

(* the intact file reads back as its content *)
Definition intact_ok (fuel : nat) (s : fspec) : bool :=
  match load fuel G nested_scan (layout s) with Ok t => tree_eqb t (abs s) | Err _ => false end.


(* the Root link describes the root group *)
Definition described (s : fspec) (x : item) : list N :=
  if is_root_link x then [et_uid (fs_root s)] else described_by s x.

(* the guard sites the model consumes, with the guard the proofs need there *)
Definition consumed_sites : list (string * string * gkind) :=
  [("H5Reader.fetch_attributes", "get:<etype>", GGet); ("H5Reader.fetch_attributes", "sub:<etype>", GNone);
   ("H5Reader.fetch_attributes", "get:<uid>", GGet); ("H5Reader.fetch_attributes", "none:entity", GHandled);
   ("H5Reader.fetch_attributes", "in:'Type'", GIn); ("H5Reader.fetch_attributes", "in:'PropertyGroups'", GIn);
   ("H5Reader.fetch_type_attributes", "in:'Color map'", GIn); ("H5Reader.fetch_type_attributes", "in:'Value map'", GIn);
   ("H5Reader.fetch_value_map", "sub:'Value map'", GTry); ("H5Reader.fetch_property_groups", "sub:'PropertyGroups'", GTry);
   ("H5Reader.fetch_children", "in:<etype>", GIn); ("H5Reader.fetch_children", "in:<uid>", GIn);
   ("H5Reader.fetch_children", "iter:entity.items", GIter); ("H5Reader.fetch_values", "sub:'Data'#2", GTry);
   ("H5Reader.fetch_array_attribute", "sub:<label>", GTry); ("H5Reader.fetch_metadata", "sub:<label>", GTry);
   ("H5Reader.fetch_uuids", "sub:<etype>", GTry); ("Workspace.fetch_or_create_root", "none:root", GHandled);
   ("Workspace.load_entity", "none:attributes", GHandled); ("Workspace.fetch_children", "none:recovered_object#2", GHandled);
   (* property groups are enumerated by link name and read one node at a time *)
   ("H5Reader.fetch_property_groups", "iter:pg_handle", GIter); ("H5Reader.fetch_property_groups", "sub:<uid>#2", GTry)].

(* What sits inside each `try ... except KeyError` that swallows (rows "swallow#n": every link lookup h5:, attribute read attr:
   and plain dict subscript py: of the try body, sorted).  The model absorbs exactly the misses of these lookups; a lookup added
   to such a scope (say a dict keyed by a stored attribute) would be swallowed with them and silently cut the loop short. *)
Definition swallow_scopes : list (string * string * string) :=
  [("H5Reader.fetch_property_groups", "swallow#1", "h5:'Objects'|h5:'PropertyGroups'|h5:<top>|h5:<uid>|h5:<uid>|py:<uid>");
   ("H5Reader.fetch_value_map", "swallow#1", "h5:'Value map'");
   ("H5Reader.fetch_values", "swallow#1", "h5:'Data'|h5:'Data'|h5:<top>|h5:<uid>|py:<uid>");
   ("H5Reader.fetch_array_attribute", "swallow#1", "h5:<etype>|h5:<label>|h5:<top>|h5:<uid>");
   ("H5Reader.fetch_metadata", "swallow#1", "h5:<etype>|h5:<label>|h5:<top>|h5:<uid>|py:<uid>");
   ("H5Reader.fetch_uuids", "swallow#1", "h5:<etype>|h5:<top>")].
(* Session state (rows "assign:<attr>": every `self.<attr> = ...` of Workspace.open / fetch_or_create_root with its nesting
   depth).  [load] is a function of the file alone: every open starts from empty registries ([reg] = the root only) and, without
   a Root link, from a root created then ([new_root]).  That is the code as long as open() resets the five registries
   unconditionally and each branch of fetch_or_create_root assigns the root unconditionally; an assignment that becomes
   conditional lets a previous session of the same Workspace object leak into the next read. *)
Definition session_sites : list (string * string * string) :=
  [("Workspace.open", "assign:_data", "depth=0"); ("Workspace.open", "assign:_objects", "depth=0");
   ("Workspace.open", "assign:_groups", "depth=0"); ("Workspace.open", "assign:_types", "depth=0");
   ("Workspace.open", "assign:_property_groups", "depth=0");
   ("Workspace.fetch_or_create_root", "assign:_root", "depth=1"); ("Workspace.fetch_or_create_root", "assign:_root#2", "depth=1")].
Definition scope_okb (c : string * string * string) : bool :=
  match c with (f, st, content) => String.eqb (row_miss f st reader_rows) content end.
Definition site_okb (c : string * string * gkind) : bool :=
  match c with (f, st, g) => gkind_eqb (row_guard f st reader_rows) g end.

(* property groups one by one: those of the intact content that the damaged read does not return under the same identifier
   (entry gone, or its ID attribute gone: the reader draws a new identifier), and those returned with other attributes *)
Definition pg_diff (s : fspec) (t0 t : tree) : list (N * key) * list (N * key) :=
  fold_right (fun u acc =>
      match find_rec (U u) (t_ents t0), find_rec (U u) (t_ents t) with
      | Some a, Some b =>
          fold_right (fun p acc' =>
              match lookup (fst p) (r_pgs b) with
              | None => ((u, fst p) :: fst acc', snd acc')
              | Some at1 =>
                  if negb (option_eqb aval_eqb (lookup KID at1) (lookup KID (snd p))) then ((u, fst p) :: fst acc', snd acc')
                  else if amap_eqb at1 (snd p) then acc' else (fst acc', (u, fst p) :: snd acc')
              end) acc (r_pgs a)
      | _, _ => acc
      end) ([], []) (all_uids s).
Definition nkey_mem (x : N * key) (l : list (N * key)) : bool := existsb (fun y => N.eqb (fst x) (fst y) && key_eqb (snd x) (snd y)) l.
Definition check_pgs (fuel : nat) (s : fspec) (t0 : tree) (x : item) (missing altered : list (N * key)) : bool :=
  match load fuel G nested_scan (delete_item (layout s) x) with
  | Ok t => let d := pg_diff s t0 t in
            forallb (fun y => nkey_mem y missing) (fst d) && forallb (fun y => nkey_mem y (fst d)) missing
            && forallb (fun y => nkey_mem y (snd d)) altered
  | Err _ => true
  end.

(* the record of an object whose property groups are [P] and everything else intact *)
Definition rec_with_pgs (s : fspec) (t : etree) (P : list (key * amap)) (parent : option uid) : erec :=
  {| r_uid := U (et_uid t); r_kind := RObject; r_parent := parent; r_attrs := et_attrs t;
     r_type := option_map tview_of (lookupN (et_ty t) (fs_types s (et_kind t)));
     r_pgs := P; r_dsets := Some (et_dsets t) |}.
