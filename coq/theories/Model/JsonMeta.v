(* Model of the JSON-carried values of geoh5py (property C08): entity metadata dictionaries and CommentsData values,
   and of the FilenameData node (two datasets).  Definitions only; proofs in Proofs/JsonMetaProofs.v.

   Python transcribed:
     Entity.metadata setter (dict | None, else TypeError)                                   geoh5py/shared/entity.py
     H5Writer.write_data_values, branch `isinstance(values, dict) or isinstance(entity, CommentsData)`:
         deepcopy, {"Comments": values} wrapping, dict_mapper(values, [as_str_if_uuid]), json.dumps   geoh5py/io/h5_writer.py
     shared.utils.dict_mapper / as_str_if_uuid / str2uuid / is_uuid (uuid.UUID(str(value)))            geoh5py/shared/utils.py
     H5Reader.fetch_metadata (json.loads, str2uuid on the values of the top dict and of the dicts directly below)
     CommentsData.values setter / getter (json.loads(text)["Comments"])                               geoh5py/data/text_data.py
     H5Writer.write_file_name_data, FilenameData.file_name / values getters, H5Reader.fetch_file_object

   Trusted, not modelled: the JSON text itself.  json.loads(json.dumps(v)) = v for values made of None/bool/int/float/str,
   lists and str-keyed dicts (CPython; ensure_ascii output is pure ASCII, so the HDF5 string layer adds nothing).
   Not modelled: the extra leniency of int(text, 16) inside uuid.UUID (surrounding blanks, sign, "0x", non-ASCII digits). *)
From GV Require Import Prelude.Base Model.Codec.

(* ------------------------------------------------------------------ uuid text *)
Local Open Scope N_scope.

Definition c_lbrace : N := 123.
Definition c_rbrace : N := 125.
Definition c_hyphen : N := 45.
Definition s_urn : str := [117; 114; 110; 58].              (* "urn:" *)
Definition s_uuidp : str := [117; 117; 105; 100; 58].       (* "uuid:" *)

Fixpoint strip_prefix (p s : str) : option str :=
  match p, s with
  | [], _ => Some s
  | c :: p', d :: s' => if c =? d then strip_prefix p' s' else None
  | _ :: _, [] => None
  end.

(* s.replace(p, "") for non-empty p: left to right, non-overlapping; fuel = length s + 1 *)
Fixpoint remove (fuel : nat) (p s : str) : str :=
  match fuel with
  | O => s
  | S f =>
      match s with
      | [] => []
      | c :: r => match strip_prefix p s with
                  | Some rest => remove f p rest
                  | None => c :: remove f p r
                  end
      end
  end.

Fixpoint lstrip (drop : N -> bool) (s : str) : str :=
  match s with
  | [] => []
  | c :: r => if drop c then lstrip drop r else s
  end.

Definition rstrip (drop : N -> bool) (s : str) : str :=
  fold_right (fun c acc => match acc with [] => if drop c then [] else [c] | _ => c :: acc end) [] s.

Definition is_brace (c : N) : bool := (c =? c_lbrace) || (c =? c_rbrace).
Definition not_hyphen (c : N) : bool := negb (c =? c_hyphen).

Definition hexval (c : N) : option N :=
  if (48 <=? c) && (c <=? 57) then Some (c - 48)
  else if (97 <=? c) && (c <=? 102) then Some (c - 87)
  else if (65 <=? c) && (c <=? 70) then Some (c - 55)
  else None.

Fixpoint hex_parse (s : str) (acc : N) : option N :=
  match s with
  | [] => Some acc
  | c :: r => match hexval c with Some d => hex_parse r (acc * 16 + d) | None => None end
  end.

(* int(text, 16) on ASCII text: surrounding white space, an optional sign, an optional "0x"/"0X" prefix (which may be
   followed by one underscore), then hex digits with single underscores between digits.  (Non-ASCII white space and decimal
   digits, which CPython also accepts, are outside the model: such cases are not compared.) *)
Definition is_space (c : N) : bool := ((9 <=? c) && (c <=? 13)) || ((28 <=? c) && (c <=? 32)).

Fixpoint hex_us (s : str) (acc : N) (need_digit : bool) : option N :=
  match s with
  | [] => if need_digit then None else Some acc
  | c :: r =>
      if c =? 95 then (if need_digit then None else hex_us r acc true)
      else match hexval c with Some d => hex_us r (acc * 16 + d) false | None => None end
  end.

Definition int16 (s : str) : option N :=
  let s1 := rstrip is_space (lstrip is_space s) in
  match s1 with
  | [] => None
  | c :: r =>
      if c =? 45 then None       (* negative: uuid.UUID(int=...) refuses; cannot occur after replace('-','') *)
      else
        let s2 := if c =? 43 then r else s1 in
        match s2 with
        | c1 :: c2 :: r2 =>
            if (c1 =? 48) && ((c2 =? 120) || (c2 =? 88))
            then hex_us (match r2 with u :: r' => if u =? 95 then r' else r2 | [] => r2 end) 0 true
            else hex_us s2 0 true
        | _ => hex_us s2 0 true
        end
  end.

(* uuid.UUID(hex=s): hex = s.replace('urn:', '').replace('uuid:', ''); hex = hex.strip('{}').replace('-', '');
   32 characters; int(hex, 16) *)
Definition uuid_clean (s : str) : str :=
  let f := S (length s) in
  filter not_hyphen (rstrip is_brace (lstrip is_brace (remove f s_uuidp (remove f s_urn s)))).

Definition parse_uuid (s : str) : option N :=
  let h := uuid_clean s in
  if Nat.eqb (length h) 32 then int16 h else None.

(* a text that cannot possibly be taken for an identifier, whatever int() tolerates: the cleaned text has not 32 characters *)
Definition never_uuid (s : str) : bool := negb (Nat.eqb (length (uuid_clean s)) 32).

Definition hexdigit (d : N) : N := if d <? 10 then 48 + d else 87 + d.

(* k lower-case hex digits of u, most significant first *)
Fixpoint hex_digits (k : nat) (u : N) (acc : str) : str :=
  match k with
  | O => acc
  | S k' => hex_digits k' (u / 16) (hexdigit (u mod 16) :: acc)
  end.

Definition dashed (ds : str) : str :=
  firstn 8 ds ++ c_hyphen :: firstn 4 (skipn 8 ds) ++ c_hyphen :: firstn 4 (skipn 12 ds) ++ c_hyphen
  :: firstn 4 (skipn 16 ds) ++ c_hyphen :: skipn 20 ds.

(* as_str_if_uuid: "{" + str(uuid) + "}" *)
Definition uuid_braced (u : N) : str := c_lbrace :: dashed (hex_digits 32 u []) ++ [c_rbrace].

(* str(int) *)
Fixpoint uint_digits (u : Decimal.uint) : str :=
  match u with
  | Decimal.Nil => []
  | Decimal.D0 r => 48 :: uint_digits r | Decimal.D1 r => 49 :: uint_digits r | Decimal.D2 r => 50 :: uint_digits r
  | Decimal.D3 r => 51 :: uint_digits r | Decimal.D4 r => 52 :: uint_digits r | Decimal.D5 r => 53 :: uint_digits r
  | Decimal.D6 r => 54 :: uint_digits r | Decimal.D7 r => 55 :: uint_digits r | Decimal.D8 r => 56 :: uint_digits r
  | Decimal.D9 r => 57 :: uint_digits r
  end.

Definition dec_Z (z : Z) : str :=
  match z with
  | Z0 => [48]
  | Zpos p => uint_digits (Pos.to_uint p)
  | Zneg p => c_hyphen :: uint_digits (Pos.to_uint p)
  end.

(* ------------------------------------------------------------------ JSON-like Python values *)
Inductive jv :=
| JNull
| JBool (b : bool)
| JInt (z : Z)
| JFlt (bits : N)                  (* a float, opaque: its repr is never uuid-shaped *)
| JStr (s : str)
| JUuid (u : N)                    (* uuid.UUID(int=u) *)
| JList (l : list jv)
| JDict (d : list (str * jv))      (* str keys, insertion order *)
| JBad.                            (* anything json.dumps refuses: bytes, sets, objects *)

Definition as_str_if_uuid (v : jv) : jv := match v with JUuid u => JStr (uuid_braced u) | _ => v end.

(* dict_mapper(val, [as_str_if_uuid]): recursion through dicts only; the elements of a list are mapped one level deep *)
Fixpoint dmap (v : jv) : jv :=
  match v with
  | JDict d => JDict (map (fun kv => (fst kv, dmap (snd kv))) d)
  | JList l => JList (map as_str_if_uuid l)
  | _ => as_str_if_uuid v
  end.

(* json.dumps succeeds *)
Fixpoint plain (v : jv) : bool :=
  match v with
  | JUuid _ | JBad => false
  | JList l => forallb plain l
  | JDict d => forallb (fun kv => plain (snd kv)) d
  | _ => true
  end.

(* str2uuid: is_uuid(value) = "uuid.UUID(str(value)) does not raise" *)
Definition uuid_of (v : jv) : option N :=
  match v with
  | JStr s => parse_uuid s
  | JInt z => parse_uuid (dec_Z z)
  | _ => None            (* repr of None/bool/float/list/dict never leaves 32 hex digits *)
  end.

Definition str2uuid (v : jv) : jv := match uuid_of v with Some u => JUuid u | None => v end.

(* fetch_metadata: the loop over metadata.items() *)
Definition rmap1 (v : jv) : jv :=
  match v with
  | JDict d => JDict (map (fun kv => (fst kv, str2uuid (snd kv))) d)
  | _ => str2uuid v
  end.

Definition fetch_meta (v : jv) : res jv :=
  match v with
  | JDict d => Ok (JDict (map (fun kv => (fst kv, rmap1 (snd kv))) d))
  | _ => Err AttributeErr
  end.

(* entity.metadata = m on a fresh entity ; close ; open ; entity.metadata   (None clears and reads back None) *)
Definition meta_trip (m : jv) : res jv :=
  match m with
  | JDict _ => let w := dmap m in if plain w then fetch_meta w else Err TypeErr     (* json.dumps: not serializable *)
  | JNull => Ok JNull
  | _ => Err TypeErr                                                                 (* the setter *)
  end.

(* Several assignments in one session.  The setter MERGES a dict into the current one (dict.update on the top level),
   None clears.  State: what the entity holds (_metadata) and the JSON value in the 'Metadata' dataset (None = no dataset).
   [Old]: write_data_values deletes the dataset before json.dumps raises and _metadata already holds the merged value, so a
   refused assignment loses the stored metadata and leaves the bad value in memory.  [Repaired]
   (fixes/C08-metadata-refusal-not-atomic.patch): the setter serialises the new value first and changes nothing on failure. *)
Fixpoint dset (k : str) (v : jv) (d : list (str * jv)) : list (str * jv) :=
  match d with
  | [] => [(k, v)]
  | (k', v') :: r => if lN_eqb k k' then (k, v) :: r else (k', v') :: dset k v r
  end.
Definition dupdate (c d : list (str * jv)) : list (str * jv) := fold_left (fun acc kv => dset (fst kv) (snd kv) acc) d c.

Record mstate := { mem : option (list (str * jv)); file : option jv }.
Definition mfresh : mstate := {| mem := None; file := None |}.

Definition meta_store (m : list (str * jv)) : mstate * option err :=
  let w := dmap (JDict m) in
  if plain w then ({| mem := Some m; file := Some w |}, None)
  else ({| mem := Some m; file := None |}, Some TypeErr).

Definition meta_assign (w : ver) (st : mstate) (v : jv) : mstate * option err :=
  match v with
  | JNull => (mfresh, None)
  | JDict d =>
      let merged := match mem st with Some c => dupdate c d | None => d end in
      match w with
      | Old => meta_store merged
      | Repaired => if plain (dmap v) then meta_store merged else (st, Some TypeErr)
      end
  | _ => (st, Some TypeErr)
  end.

Fixpoint meta_run (w : ver) (st : mstate) (ops : list jv) : mstate * list (option err) :=
  match ops with
  | [] => (st, [])
  | v :: r => let (st1, e) := meta_assign w st v in let (st2, es) := meta_run w st1 r in (st2, e :: es)
  end.

Definition meta_reopen (st : mstate) : res jv :=
  match file st with Some w => fetch_meta w | None => Ok JNull end.

(* what may sit where a value is mapped back: directly in the metadata dict or in a dict directly below *)
Definition slot2 (y : jv) : bool :=
  match y with
  | JUuid u => u <? 2 ^ 128                  (* any uuid.UUID *)
  | JInt _ => match uuid_of y with Some _ => false | None => true end
  | JStr s => match parse_uuid s with
              | Some _ => false
              | None => forallb (fun c => c <? 128) s || never_uuid s    (* non-ASCII text is trusted only when it has not 32 characters *)
              end
  | _ => plain y
  end.
Definition slot1 (x : jv) : bool :=
  match x with
  | JDict d2 => forallb (fun kv => slot2 (snd kv)) d2
  | _ => slot2 x
  end.
Definition meta_ok (m : jv) : bool :=
  match m with JDict d => forallb (fun kv => slot1 (snd kv)) d | _ => false end.

(* ------------------------------------------------------------------ comments *)
Definition k_Comments : str := [67; 111; 109; 109; 101; 110; 116; 115].
Definition k_Author : str := [65; 117; 116; 104; 111; 114].
Definition k_Date : str := [68; 97; 116; 101].
Definition k_Text : str := [84; 101; 120; 116].

Definition keys_ok (r : jv) : bool :=
  match r with
  | JDict [(a, _); (d, _); (t, _)] => lN_eqb a k_Author && lN_eqb d k_Date && lN_eqb t k_Text
  | _ => false
  end.

(* CommentsData.values = l ; close ; open ; .values *)
Definition comments_trip (l : list jv) : res (list jv) :=
  if negb (forallb keys_ok l) then Err AssertErr
  else match dmap (JDict [(k_Comments, JList l)]) with
       | JDict [(_, JList l')] => if forallb plain l' then Ok l' else Err TypeErr
       | _ => Err TypeErr
       end.

Definition is_record (r : jv) : Prop :=
  exists a d t, r = JDict [(k_Author, JStr a); (k_Date, JStr d); (k_Text, JStr t)].

(* ------------------------------------------------------------------ the FilenameData node *)
Local Close Scope N_scope.

Inductive member := MType | MName (s : str) | MBlob (b : bytes).      (* link to the data type | vlen-str dataset | opaque dataset *)
Definition node := list (str * member).

Definition k_Data : str := [68; 97; 116; 97]%N.
Definition k_Type : str := [84; 121; 112; 101]%N.

Fixpoint nget (k : str) (n : node) : option member :=
  match n with [] => None | (k', m) :: r => if lN_eqb k k' then Some m else nget k r end.
Fixpoint ndel (k : str) (n : node) : node :=
  match n with [] => [] | (k', m) :: r => if lN_eqb k k' then ndel k r else (k', m) :: ndel k r end.
Definition nadd (k : str) (m : member) (n : node) : node := n ++ [(k, m)].       (* create_dataset on a free name *)

(* write_data_values (deletes "Data" when present) then write_file_name_data:
     create "Data" = file_name ; if file_name in node: del node[file_name] ; create node[file_name] = blob *)
Definition node_write (n : node) (name : str) (b : bytes) : node :=
  let n1 := nadd k_Data (MName name) (ndel k_Data n) in
  nadd name (MBlob b) (ndel name n1).

(* re-open: the entity loads only if its Type link is there; file_name = fetch_values ("Data" as str, else no name);
   values = fetch_file_object(uid, file_name) *)
Definition node_read (n : node) : res (option (str * bytes)) :=
  match nget k_Type n with
  | Some MType =>
      match nget k_Data n with
      | Some (MName nm) => match nget nm n with
                           | Some (MBlob b) => Ok (Some (nm, b))
                           | _ => Ok None
                           end
      | _ => Ok None                 (* "Data" is not text: file_name stays None, values None *)
      end
  | _ => Err TypeErr                 (* the workspace cannot be opened *)
  end.

Definition node0 : node := [(k_Type, MType)].

(* names add_file refuses (h5py): "" -> TypeError, embedded NUL -> ValueError, "." -> KeyError.  Names with '/' are HDF5
   paths (nested groups, or the file root for a leading '/') and are outside this model. *)
Definition name_refusal (name : str) : option err :=
  match name with
  | [] => Some TypeErr
  | _ => if has_nul name then Some ValueErr else if lN_eqb name [46%N] then Some KeyErr else None
  end.
Definition name_ok (name : str) : bool :=
  match name_refusal name with Some _ => false | None => negb (existsb (N.eqb 47) name) end.

(* ------------------------------------------------------------------ comparison for the case files *)
Fixpoint jv_eqb (a b : jv) : bool :=
  match a, b with
  | JNull, JNull | JBad, JBad => true
  | JBool x, JBool y => Bool.eqb x y
  | JInt x, JInt y => Z.eqb x y
  | JFlt x, JFlt y => N.eqb x y
  | JStr x, JStr y => lN_eqb x y
  | JUuid x, JUuid y => N.eqb x y
  | JList x, JList y =>
      (fix go (l1 l2 : list jv) : bool :=
         match l1, l2 with
         | [], [] => true
         | v1 :: r1, v2 :: r2 => jv_eqb v1 v2 && go r1 r2
         | _, _ => false
         end) x y
  | JDict x, JDict y =>
      (fix go (l1 l2 : list (str * jv)) : bool :=
         match l1, l2 with
         | [], [] => true
         | (k1, v1) :: r1, (k2, v2) :: r2 => lN_eqb k1 k2 && jv_eqb v1 v2 && go r1 r2
         | _, _ => false
         end) x y
  | _, _ => false
  end.

Definition res_jv_eqb (a b : res jv) : bool :=
  match a, b with Ok x, Ok y => jv_eqb x y | Err e, Err f => err_eqb e f | _, _ => false end.

(* ops: the assignments of one session; es: the error of each; live: entity.metadata at the end; w: the JSON text in the
   file parsed (None: no dataset); o: entity.metadata after re-open *)
Definition agree_meta_run (v : ver) (ops : list jv) (es : list (option err)) (live w : option jv) (o : res jv) : bool :=
  let (st, es') := meta_run v mfresh ops in
  list_eqb (option_eqb err_eqb) es' es
  && option_eqb jv_eqb (match mem st with Some d => Some (JDict d) | None => None end) live
  && option_eqb jv_eqb (file st) w
  && res_jv_eqb (meta_reopen st) o.

Definition comments_written (l : list jv) : option jv :=
  match comments_trip l with Ok l' => Some (JDict [(k_Comments, JList l')]) | Err _ => None end.
Definition agree_comments (l : list jv) (w : option jv) (o : res jv) : bool :=
  option_eqb jv_eqb (comments_written l) w
  && res_jv_eqb (match comments_trip l with Ok l' => Ok (JList l') | Err e => Err e end) o.

Definition member_eqb (a b : member) : bool :=
  match a, b with
  | MType, MType => true
  | MName x, MName y => lN_eqb x y
  | MBlob x, MBlob y => lN_eqb x y
  | _, _ => false
  end.
Definition node_eqb : node -> node -> bool := list_eqb (fun a b => lN_eqb (fst a) (fst b) && member_eqb (snd a) (snd b)).

(* blob case: the stored node (members in name order are compared as a set by the driver sorting both) and the read-back *)
Definition agree_node (name : str) (x : fin) (members : node) (o : res (option (str * bytes))) : bool :=
  match blob_store x with
  | Err _ => false
  | Ok b =>
      negb (match name_refusal name with Some _ => true | None => false end) &&
      let n := node_write node0 name b in
      forallb (fun km => match nget (fst km) n with Some m => member_eqb m (snd km) | None => false end) members
      && Nat.eqb (length members) (length n)
      && match node_read n, o with
         | Ok None, Ok None => true
         | Ok (Some (nm, bb)), Ok (Some (nm', bb')) => lN_eqb nm nm' && lN_eqb bb bb'
         | Err e, Err f => err_eqb e f
         | _, _ => false
         end
  end.

(* add_file(blob, name), in the order things happen in write_file_name_data: the file name is written into "Data" (NUL:
   ValueError), the member called like the file is deleted ("." : KeyError), np.void(blob) is built (empty: ValueError), the
   dataset called like the file is created ("": TypeError).  FNotBytes stands for "add_file(b'seed', name) then
   .values = <not bytes>": the seed write comes first, then the setter's ValueError. *)
Definition blob_add (name : str) (x : fin) : res bytes :=
  if has_nul name then Err ValueErr
  else if lN_eqb name [46%N] then Err KeyErr
  else match x with
       | FBytes [] => Err ValueErr
       | FBytes b => match name with [] => Err TypeErr | _ => Ok b end
       | FNotBytes => match name with [] => Err TypeErr | _ => Err ValueErr end
       end.

Definition agree_blob_refused (name : str) (x : fin) (e : err) : bool :=
  match blob_add name x with Err e' => err_eqb e e' | Ok _ => false end.
