(* Enforcers — hand-written models of the STATEFUL validation objects of geoh5py/ui_json (property C15) and of the
   validators that need the workspace.  Definitions only.

   Python transcribed (geoh5py after the C15 repairs 38af3bf, 00955df, 1bef661):
     ui_json/enforcers.py   TypeEnforcer / ValueEnforcer / UUIDEnforcer .rule/.enforce,
                            EnforcerPool.{enforce, _capture_error, _raise_errors}   (state: _errors)
     ui_json/parameters.py  Parameter.{__init__, value setter, validate}            (state: _value, pool)
     shared/validators.py   AssociationValidator, PropertyGroupValidator, ShapeValidator  (.validate; the other six are PyLite output)
     ui_json/validation.py  InputValidation.{validate, validate_data}                (state: the validations dict)
   The pre-repair behaviour is kept as *_old definitions: the refutation theorems about them document what the
   repairs changed and show that the statelessness statements discriminate.

   STATE IS EXPLICIT in all three models: a [pool] carries `_errors` (p_errs), every pool_enforce* takes the pool left
   by the previous call and returns the next one (pool_run threads it through a history); a [param] carries the stored
   value and its pool; iv_validate_data* takes the rule table `self.validations` and returns the table it leaves behind
   (iv_run threads it).  The repaired pool_enforce starts from [] because the repaired Python does (`self._errors = []`),
   not because the model has no state: C15_pool_stateless_any_state quantifies over ARBITRARY left-over error lists. *)
From Coq Require Import String.
From GV Require Import Prelude.Base Model.PyVal.
From GVgen Require Import PyLite_SharedUtils PyLite_UiUtils PyLite_Validators.
Local Open Scope string_scope.

(* ------------------------------------------------------------------ the workspace as the validators see it *)
Record world := { w_ents : list (N * ekind);            (* every uid the workspace knows (entities and property groups) *)
                  w_desc : list (N * list N) }.          (* uid -> uids of Workspace.fetch_children(x, recursively=True) *)
Definition w_has (W : world) (u : N) : bool := existsb (fun p => N.eqb (fst p) u) (w_ents W).
Fixpoint assocN {A} (u : N) (l : list (N * A)) : option A :=
  match l with [] => None | (k, v) :: r => if N.eqb k u then Some v else assocN u r end.
Definition w_kind (W : world) (u : N) : option ekind := assocN u (w_ents W).
Definition w_descendants (W : world) (u : N) : list N := match assocN u (w_desc W) with Some l => l | None => [] end.

(* ------------------------------------------------------------------ enforcers *)
Inductive enforcer := EType (ts : list pty) | EValue (vs : list pv) | EUuid.

Definition enf_kind (e : enforcer) : vkind :=
  match e with EType _ => VType | EValue _ => VValue | EUuid => VUUID end.

(* Enforcer.rule: may raise something that is not a validation error (value in <set> with an unhashable value) *)
Definition enf_rule (e : enforcer) (v : pv) : res bool :=
  match e with
  | EType ts => Ok (isinst v (ts ++ [TNoneType]))
  | EValue vs => if hashable v then Ok (existsb (py_eq v) vs) else Raise TypeError
  | EUuid => Ok (is_none v || py_is_uuid v)
  end.

Record pool := { p_enf : list enforcer; p_errs : list vkind }.

(* one pass of `for enforcer in self.enforcers: self._capture_error(enforcer, value)` from a given error list *)
Fixpoint capture (es : list enforcer) (v : pv) (errs : list vkind) : list vkind * option exn :=
  match es with
  | [] => (errs, None)
  | e :: r =>
      match enf_rule e v with
      | Ok true => capture r v errs
      | Ok false => capture r v (errs ++ [enf_kind e])
      | Raise x => (errs, Some x)                     (* escapes enforce(); the list stays as it is *)
      end
  end.

(* _raise_errors: one error is popped and raised, several are raised as an aggregate and stay in the list *)
Definition raise_errors (errs : list vkind) : list vkind * res unit :=
  match errs with
  | [] => ([], Ok tt)
  | [k] => ([], Raise (Validation k))
  | _ => (errs, Raise (Validation VAggregate))
  end.

Definition pool_enforce_from (start : list vkind) (p : pool) (v : pv) : pool * res unit :=
  match capture (p_enf p) v start with
  | (errs, Some x) => ({| p_enf := p_enf p; p_errs := errs |}, Raise x)
  | (errs, None) => let '(errs', r) := raise_errors errs in ({| p_enf := p_enf p; p_errs := errs' |}, r)
  end.

(* EnforcerPool.enforce (repaired: `self._errors = []` first) *)
Definition pool_enforce (p : pool) (v : pv) : pool * res unit := pool_enforce_from [] p v.
(* before the repair: the pass starts from whatever earlier passes left behind *)
Definition pool_enforce_old (p : pool) (v : pv) : pool * res unit := pool_enforce_from (p_errs p) p v.

Definition fresh_pool (es : list enforcer) : pool := {| p_enf := es; p_errs := [] |}.

(* a history of enforce calls on one pool object *)
Fixpoint pool_run (step : pool -> pv -> pool * res unit) (p : pool) (vs : list pv) : pool * list (res unit * nat) :=
  match vs with
  | [] => (p, [])
  | v :: r => let '(p', out) := step p v in
              let '(p'', outs) := pool_run step p' r in (p'', (out, length (p_errs p')) :: outs)
  end.

(* ------------------------------------------------------------------ Parameter *)
Record param := { pm_pool : pool; pm_val : pv }.

(* value setter (repaired: enforce the candidate, then store) *)
Definition param_set (p : param) (v : pv) : param * res unit :=
  let '(pl, r) := pool_enforce (pm_pool p) v in
  match r with
  | Ok _ => ({| pm_pool := pl; pm_val := v |}, Ok tt)
  | Raise e => ({| pm_pool := pl; pm_val := pm_val p |}, Raise e)
  end.
(* before the repairs: store, then validate the stored value with the stale-error pool *)
Definition param_set_old (p : param) (v : pv) : param * res unit :=
  let '(pl, r) := pool_enforce_old (pm_pool p) v in ({| pm_pool := pl; pm_val := v |}, r).

Definition fresh_param (es : list enforcer) : param := {| pm_pool := fresh_pool es; pm_val := PNone |}.

Fixpoint param_run (step : param -> pv -> param * res unit) (p : param) (vs : list pv) : param * list (res unit * pv) :=
  match vs with
  | [] => (p, [])
  | v :: r => let '(p', out) := step p v in
              let '(p'', outs) := param_run step p' r in (p'', (out, pm_val p') :: outs)
  end.

(* ------------------------------------------------------------------ validators that are not PyLite output *)
Definition AssociationValidator_validate (W : world) (v_name v_value v_valid : pv) : res pv :=
  match v_valid with
  | PNone => Ok PNone
  | PList _ => Ok PNone                                                  (* warning only *)
  | PEnt KEntity _ | PWs _ =>
      match (match v_value with PUuid u => Some u | PEnt _ u => Some u | _ => None end) with
      | None => Ok PNone
      | Some u =>
          let inside := match v_valid with
                        | PWs _ => w_has W u
                        | PEnt _ p => existsb (N.eqb u) (w_descendants W p)
                        | _ => false
                        end in
          if inside then Ok PNone else Raise (Validation VAssociation)
      end
  | _ => Raise ValueError
  end.

Definition PropertyGroupValidator_validate (v_name v_value v_valid : pv) : res pv :=
  match v_value with
  | PNone => Ok PNone
  | PEnt (KPropGroup t) _ => if py_eq (PStr t) v_valid then Ok PNone else Raise (Validation VPropertyGroup)
  | _ => Raise AttributeError                                            (* no .property_group_type *)
  end.

Definition ShapeValidator_validate (v_name v_value v_valid : pv) : res pv :=
  match v_value with
  | PNone => Ok PNone
  | _ =>
      let pshape := match v_value with
                    | PList l => PTuple [PInt (Z.of_nat (length l))]
                    | _ => PTuple [PInt 1]
                    end in
      if py_eq pshape v_valid then Ok PNone else Raise (Validation VShape)
  end.

(* ------------------------------------------------------------------ InputValidation.validate: the fixed validator order *)
Definition validator_order : list string :=
  ["required"; "one_of"; "optional"; "types"; "uuid"; "association"; "property_group_type"; "values"; "shape"].

Definition run_validator (W : world) (key : string) (name value valid : pv) : res pv :=
  if String.eqb key "required" then RequiredValidator_validate name value valid
  else if String.eqb key "one_of" then AtLeastOneValidator_validate name value valid
  else if String.eqb key "optional" then OptionalValidator_validate name value valid
  else if String.eqb key "types" then TypeValidator_validate name value valid
  else if String.eqb key "uuid" then UUIDValidator_validate name value valid
  else if String.eqb key "association" then AssociationValidator_validate W name value valid
  else if String.eqb key "property_group_type" then PropertyGroupValidator_validate name value valid
  else if String.eqb key "values" then ValueValidator_validate name value valid
  else ShapeValidator_validate name value valid.

Record iv_opts := { ignore_requirements : bool; ignore_list : list pv }.

(* InputValidation.validate(name, value, validations) with validations given *)
Definition iv_validate (W : world) (o : iv_opts) (name value rules : pv) : res pv :=
  _ <- fold_res (fun (_ : unit) key =>
         present <- contains (PStr key) rules ;;
         if negb present || (String.eqb key "required" && ignore_requirements o) || existsb (py_eq name) (ignore_list o)
         then Ok tt
         else valid <- getitem rules (PStr key) ;; _ <- run_validator W key name value valid ;; Ok tt)
       validator_order tt ;;
  Ok PNone.

(* InputValidation.validate_data(data): `pop_one_of` = true reproduces the pre-repair code, which removed the rule from
   the dict shared with self.validations.  Returns the validations afterwards and the verdict. *)
(* one turn of the loop `for param, validations in local_validations.items()`; state = (self.validations, one_of_validations) *)
Definition iv_step (pop_one_of : bool) (W : world) (o : iv_opts) (data : pv) (st : pv * pv) (kv : pv * pv) : res (pv * pv) :=
  let '(vals, one_of) := st in
  let '(param, rules) := kv in
  present <- in_keys param data ;;
  if negb present then
    req <- contains (PStr "required") rules ;;
    if req && negb (ignore_requirements o) then Raise (Validation VRequired) else Ok st
  else
    has_one <- contains (PStr "one_of") rules ;;
    '(vals, one_of, rules) <-
       (if has_one then
          grp <- getitem rules (PStr "one_of") ;;
          rules' <- delitem rules (PStr "one_of") ;;
          dv <- getitem data param ;;
          let entry := PDict [(param, PBool (negb (is_none dv)))] in
          cur <- dict_get one_of grp PNone ;;
          upd <- (if is_none cur then Ok entry else dict_update cur entry) ;;
          one_of' <- setitem one_of grp upd ;;
          vals' <- (if pop_one_of then setitem vals param rules' else Ok vals) ;;
          Ok (vals', one_of', rules')
        else Ok (vals, one_of, rules)) ;;
    has_assoc <- contains (PStr "association") rules ;;
    use_assoc <- (if has_assoc then a <- getitem rules (PStr "association") ;; contains a data else Ok false) ;;
    _ <- (if use_assoc then
            a <- getitem rules (PStr "association") ;;
            parent <- getitem data a ;;
            valid <- setitem rules (PStr "association") parent ;;
            dv <- getitem data param ;;
            iv_validate W o param dv valid
          else
            dv <- dict_get data param PNone ;;
            iv_validate W o param dv rules) ;;
    Ok (vals, one_of).

(* `for name, val in one_of_validations.items(): self.validate(name, val, {"one_of": None})` *)
Definition iv_groups_check (W : world) (o : iv_opts) (groups : list (pv * pv)) : res pv :=
  _ <- fold_res (fun (_ : unit) gv => _ <- iv_validate W o (fst gv) (snd gv) (PDict [(PStr "one_of", PNone)]) ;; Ok tt) groups tt ;;
  Ok PNone.

Definition iv_validate_data_gen (pop_one_of : bool) (W : world) (o : iv_opts) (validations data : pv) : pv * res pv :=
  match validations with
  | PDict vd =>
      match fold_res (iv_step pop_one_of W o data) vd (validations, PDict []) with
      | Raise e => (validations, Raise e)        (* old code only: pops made before a raise inside the loop are not tracked *)
      | Ok (vals, one_of) =>
          match one_of with
          | PDict groups => (vals, iv_groups_check W o groups)
          | _ => (vals, Raise TypeError)
          end
      end
  | _ => (validations, Raise AttributeError)
  end.

Definition iv_validate_data := iv_validate_data_gen false.

(* a history of validate_data calls on one InputValidation object *)
Fixpoint iv_run (step : pv -> pv -> pv * res pv) (validations : pv) (datas : list pv) : list (res pv) :=
  match datas with
  | [] => []
  | d :: r => let '(v', out) := step validations d in out :: iv_run step v' r
  end.

(* ------------------------------------------------------------------ comparison helpers for the case files *)
Fixpoint list_eqb2 {A B} (eqb : A -> B -> bool) (l1 : list A) (l2 : list B) : bool :=
  match l1, l2 with
  | [], [] => true
  | x :: r1, y :: r2 => eqb x y && list_eqb2 eqb r1 r2
  | _, _ => false
  end.
Definition unit_res_eqb (a : res unit) (b : option exn) : bool :=
  match a, b with
  | Ok _, None => true
  | Raise e, Some f => exn_eqb e f
  | _, _ => false
  end.
Definition pool_obs_eqb (a : list (res unit * nat)) (b : list (option exn * nat)) : bool :=
  list_eqb2 (fun x y => unit_res_eqb (fst x) (fst y) && Nat.eqb (snd x) (snd y)) a b.
Definition param_obs_eqb (a : list (res unit * pv)) (b : list (option exn * pv)) : bool :=
  list_eqb2 (fun x y => unit_res_eqb (fst x) (fst y) && pv_same (snd x) (snd y)) a b.
Definition verdict_eqb (a : res pv) (b : option exn) : bool :=
  match a, b with
  | Ok _, None => true
  | Raise e, Some f => exn_eqb e f
  | _, _ => false
  end.
Definition verdicts_eqb (a : list (res pv)) (b : list (option exn)) : bool := list_eqb2 verdict_eqb a b.

(* ------------------------------------------------------------------ the at-least-one rule, declaratively (C15_one_of_accept_iff) *)
(* a rule table in which parameter p only says  {"one_of": g} *)
Definition one_of_table (spec : list (string * string)) : list (pv * pv) :=
  map (fun pg => (PStr (fst pg), PDict [(PStr "one_of", PStr (snd pg))])) spec.
(* data[p] is not None *)
Definition provided (data : list (pv * pv)) (p : string) : bool :=
  match dict_find (PStr p) data with Some PNone | None => false | Some _ => true end.
(* some member of group g is provided *)
Definition group_satisfied (spec : list (string * string)) (data : list (pv * pv)) (g : string) : bool :=
  existsb (fun pg => String.eqb (snd pg) g && provided data (fst pg)) spec.
Definition one_of_ok (spec : list (string * string)) (data : list (pv * pv)) : bool :=
  forallb (fun pg => group_satisfied spec data (snd pg)) spec.
