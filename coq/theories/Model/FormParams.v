(* FormParams — hand model of the member-setter state machine of geoh5py/ui_json/forms.py::FormParameter and
   descriptors.py::FormValueAccess  (property C15).  Definitions only.

   State of a form = the Parameter object behind every member (stored value + its EnforcerPool, Model/Enforcers.v [param]),
   the extra (unrecognised) members and the list `_active_members`.
     FormValueAccess.__set__      -> form_set       (validate-and-store through Parameter.value, THEN mark the member active)
     FormParameter.value setter   -> form_set on "value" (never marked: "value" is always active)
     FormParameter.register       -> form_register  (camel->snake keys, recognised members one by one collecting validation
                                                     errors, one error re-raised / several aggregated, extras stored only on success)
     UIJson.update_state/_data    -> form_update    (register the members other than "value", then assign the value - or, when the
                                                     dictionary has no "value", the dictionary itself: transcribed as written)
     FormParameter.active / form  -> form_active / form_view
     FormParameter.validate       -> form_validate  (the EnforcerPool built ONCE in __init__ from `validations`: the required
                                                     form members and, when group_optional was active at construction, "group")
   Which Parameter class sits behind which member is read off the live object by the driver (reflection), so the model is
   tied to the class definitions of the tree under test.
   OUTSIDE the model: assignment to a name that is not a member (forms.py has no __setattr__ guard: Python creates a plain
   attribute, and a name starting with "_" would even enlarge valid_members) - the generator only assigns members, and
   [form_set] answers AttributeError there only to stay total; DataValueFormParameter (its value setter routes non-numbers
   to `_property`), Object/Data/File form classes; UIJson.validate. *)
From Coq Require Import String.
From GV Require Import Prelude.Base Model.PyVal Model.Enforcers.
Local Open Scope string_scope.

Record fstate := { f_members : list (string * param); f_extra : list (pv * pv); f_active : list string }.

Fixpoint assoc_s {A} (k : string) (l : list (string * A)) : option A :=
  match l with [] => None | (k2, v) :: r => if String.eqb k k2 then Some v else assoc_s k r end.
Fixpoint update_s {A} (k : string) (v : A) (l : list (string * A)) : list (string * A) :=
  match l with [] => [] | (k2, w) :: r => if String.eqb k k2 then (k2, v) :: r else (k2, w) :: update_s k v r end.

(* FormValueAccess.__set__ / the value property.  [mark_first] = the pre-repair order of a seeded variant is NOT modelled;
   the flag only exists so that the theorem about the order has something to refute. *)
Definition form_set_gen (mark_first : bool) (f : fstate) (m : string) (v : pv) : fstate * res unit :=
  match assoc_s m (f_members f) with
  | None => (f, Raise AttributeError)
  | Some p =>
      let '(p', r) := param_set p v in
      let marked := if String.eqb m "value" then f_active f else (f_active f ++ [m])%list in
      let members' := update_s m p' (f_members f) in
      match r with
      | Ok _ => ({| f_members := members'; f_extra := f_extra f; f_active := marked |}, Ok tt)
      | Raise e => ({| f_members := members'; f_extra := f_extra f; f_active := if mark_first then marked else f_active f |}, Raise e)
      end
  end.
Definition form_set := form_set_gen false.

(* what the API shows: stored values, extras, active members *)
Definition form_values (f : fstate) : list (string * pv) := map (fun np => (fst np, pm_val (snd np))) (f_members f).
Definition fview (f : fstate) : list (string * pv) * list (pv * pv) * list string := (form_values f, f_extra f, f_active f).

Fixpoint dedup (seen l : list string) : list string :=
  match l with
  | [] => []
  | x :: r => if existsb (String.eqb x) seen then dedup seen r else x :: dedup (x :: seen) r
  end.
Definition extra_names (f : fstate) : list string :=
  fold_right (fun kv acc => match fst kv with PStr s => s :: acc | _ => acc end) [] (f_extra f).
(* FormParameter.active *)
Definition form_active (f : fstate) : list string := dedup [] ("value" :: f_active f ++ extra_names f)%list.
(* FormParameter.form() *)
Definition form_view (f : fstate) : pv :=
  PDict (map (fun m => (PStr m, match dict_find (PStr m) (f_extra f) with
                                 | Some x => x
                                 | None => match assoc_s m (f_members f) with Some p => pm_val p | None => PNone end
                                 end)) (form_active f)).

(* MEMBER_KEYS.map(members): camel -> snake with the table extracted from forms.py *)
Definition snake (table : list (string * string)) (k : string) : string :=
  match assoc_s k table with Some s => s | None => k end.

(* FormParameter.register(members) *)
Fixpoint register_loop (f : fstate) (items : list (string * pv)) (errs : list vkind) (rest : list (pv * pv))
  : fstate * list vkind * list (pv * pv) * option exn :=
  match items with
  | [] => (f, errs, rest, None)
  | (k, v) :: r =>
      match assoc_s k (f_members f) with
      | None => register_loop f r errs (rest ++ [(PStr k, v)])%list
      | Some _ =>
          let '(f', out) := form_set f k v in
          match out with
          | Ok _ => register_loop f' r errs rest
          | Raise (Validation kd) => register_loop f' r (errs ++ [kd])%list rest
          | Raise e => (f', errs, rest, Some e)
          end
      end
  end.
Definition form_register (table : list (string * string)) (f : fstate) (items : list (string * pv)) : fstate * res unit :=
  let items' := map (fun kv => (snake table (fst kv), snd kv)) items in
  match register_loop f items' [] [] with
  | (f', _, _, Some e) => (f', Raise e)
  | (f', [], rest, None) =>
      ({| f_members := f_members f'; f_active := f_active f';
          f_extra := fold_left (fun acc kv => dict_set acc (fst kv) (snd kv)) rest (f_extra f') |}, Ok tt)
  | (f', [k], _, None) => (f', Raise (Validation k))
  | (f', _, _, None) => (f', Raise (Validation VAggregate))
  end.

(* UIJson.update({name: dict}) for one FormParameter: update_state then update_data *)
Definition form_update (table : list (string * string)) (f : fstate) (items : list (string * pv)) : fstate * res unit :=
  let state := filter (fun kv => negb (String.eqb (fst kv) "value")) items in
  let '(f1, r1) := form_register table f state in
  match r1 with
  | Raise e => (f1, Raise e)
  | Ok _ =>
      match assoc_s "value" items with
      | Some v => form_set f1 "value" v
      | None => form_set f1 "value" (PDict (map (fun kv => (PStr (fst kv), snd kv)) items))
      end
  end.

(* FormParameter.validate(): self.enforcers.enforce(self.form()) with the enforcers frozen at construction:
   RequiredFormMemberEnforcer(reqm) and, if present, RequiredEnforcer(req); each fails when a name is missing from form() *)
Definition form_validate (reqm req : list string) (has_req : bool) (f : fstate) : res unit :=
  let keys := form_active f in
  let ok l := forallb (fun k => existsb (String.eqb k) keys) l in
  let errs := (if has_req && negb (ok req) then 1 else 0) + (if ok reqm then 0 else 1) in
  match errs with 0 => Ok tt | 1 => Raise (Validation VInCollection) | _ => Raise (Validation VAggregate) end.

Inductive fop := FSet (m : string) (v : pv) | FRegister (items : list (string * pv)) | FUpdate (items : list (string * pv))
               | FValidate (reqm req : list string) (has_req : bool).
Definition form_step (table : list (string * string)) (f : fstate) (o : fop) : fstate * res unit :=
  match o with
  | FSet m v => form_set f m v
  | FRegister items => form_register table f items
  | FUpdate items => form_update table f items
  | FValidate reqm req has_req => (f, form_validate reqm req has_req f)
  end.
Fixpoint form_run (table : list (string * string)) (f : fstate) (ops : list fop) : list (res unit * pv * list string) :=
  match ops with
  | [] => []
  | o :: r => let '(f', out) := form_step table f o in (out, form_view f', form_active f') :: form_run table f' r
  end.

Definition fobs_eqb (a : list (res unit * pv * list string)) (b : list (option exn * pv * list string)) : bool :=
  list_eqb2 (fun x y => let '(r1, v1, a1) := x in let '(r2, v2, a2) := y in
                        unit_res_eqb r1 r2 && pv_same v1 v2 && list_eqb String.eqb a1 a2) a b.
