(* UiRules — the specification side of `requires_value` (property C15): what the docstring of
   geoh5py/ui_json/utils.py::requires_value says, written directly over the association list of a ui.json
   dictionary, for any number of parameters and group members; and the well-formedness domain WfUi.
   Definitions only.  The implementation side is the PyLite output coq/generated/PyLite_UiUtils.v. *)
From Coq Require Import String.
From GV Require Import Prelude.Base Model.PyVal.
Local Open Scope string_scope.

Definition alist := list (pv * pv).

(* a form is a dict with "label" and "value" members (is_form) *)
Definition form_members (v : pv) : option alist :=
  match v with
  | PDict f => if dict_has (PStr "label") f && dict_has (PStr "value") f then Some f else None
  | _ => None
  end.
Definition mem (k : string) (f : alist) : option pv := dict_find (PStr k) f.
Definition mem_default (k : string) (f : alist) (dflt : pv) : pv :=
  match mem k f with Some v => v | None => dflt end.

(* the forms of group g, in file order *)
Definition in_group (g : pv) (kv : pv * pv) : bool :=
  match form_members (snd kv) with
  | Some f => match mem "group" f with Some g' => py_eq g' g | None => false end
  | None => false
  end.
Definition has_group_switch (kv : pv * pv) : bool :=
  match form_members (snd kv) with
  | Some f => match mem "groupOptional" f with Some _ => true | None => false end
  | None => false
  end.
(* the group's switch: the first member that carries a groupOptional member *)
Definition group_switch (d : alist) (g : pv) : option alist :=
  match filter has_group_switch (filter (in_group g) d) with
  | kv :: _ => form_members (snd kv)
  | [] => None
  end.
(* "When group optional is disabled all parameters in the group are not required" *)
Definition group_on (d : alist) (g : pv) : bool :=
  match group_switch d g with
  | Some f => if truthy (mem_default "groupOptional" f (PBool false)) then truthy (mem_default "enabled" f (PBool true)) else true
  | None => true
  end.

(* the dependency switch: the enabled state of an optional dependency, else its (boolean) value; inverted for
   dependencyType "disabled" *)
Definition dep_on (d : alist) (f : alist) : bool :=
  match mem "dependency" f with
  | Some dep =>
      match dict_find dep d with
      | Some (PDict fd) =>
          let key := if truthy (mem_default "optional" fd (PBool false)) then "enabled" else "value" in
          let sw := truthy (mem_default key fd (PBool true)) in
          if py_eq (mem_default "dependencyType" f (PStr "enabled")) (PStr "enabled") then sw else negb sw
      | _ => true
      end
  | None => true
  end.

(* the parameter's own optional switch *)
Definition own_switch (f : alist) : bool :=
  match mem "optional" f with
  | Some _ => truthy (mem_default "enabled" f (PBool true))
  | None => true
  end.

(* requires_value as the docstring states it: groupOptional switch > dependency switch > optional switch *)
Definition rv_spec (d : alist) (v : pv) : bool :=
  match form_members v with
  | None => true
  | Some f =>
      let base := match mem "dependency" f with
                  | Some _ => if dep_on d f then own_switch f else false
                  | None => own_switch f
                  end in
      match mem "group" f with
      | Some g => if group_on d g then base else false
      | None => base
      end
  end.

(* ---------------------------------------------------------------- well-formed ui.json dictionaries *)
Definition is_pbool (v : pv) : bool := match v with PBool _ => true | _ => false end.
Definition is_pstr (v : pv) : bool := match v with PStr _ => true | _ => false end.
Definition opt_ok (P : pv -> bool) (o : option pv) : bool := match o with Some v => P v | None => true end.

Definition wf_form (d : alist) (f : alist) : bool :=
  opt_ok is_pbool (mem "optional" f) && opt_ok is_pbool (mem "enabled" f) && opt_ok is_pbool (mem "groupOptional" f)
  && opt_ok is_pstr (mem "group" f)
  && match mem "dependency" f with
     | None => true
     | Some dep =>
         is_pstr dep &&
         match dict_find dep d with
         | Some (PDict fd) =>
             opt_ok is_pbool (mem "optional" fd)
             && opt_ok is_pbool (mem (if truthy (mem_default "optional" fd (PBool false)) then "enabled" else "value") fd)
         | _ => false
         end
     end.

Definition wf_ui (d : alist) : bool :=
  wf_pv (PDict d)
  && forallb (fun kv => is_pstr (fst kv) && match form_members (snd kv) with Some f => wf_form d f | None => true end) d.

(* executable form of the property, for witnesses and search *)
Definition rv_agrees (impl : pv -> pv -> res pv) (d : alist) (p : string) : bool :=
  match dict_find (PStr p) d with
  | Some v => res_same (impl (PDict d) (PStr p)) (Ok (PBool (rv_spec d v)))
  | None => true
  end.
