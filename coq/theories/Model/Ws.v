(* Workspace / file model for C01, C02, C09 (definitions only).

   Memory  = the live entity tree (what the API shows from ws.root down).
   File    = the geoh5 link graph: flat containers (one node per (kind, uid)) whose nodes carry attributes,
             an array token, an HDF5 address, and child links (kind, uid) -> address the link points to; a Root link.
   Pending = identifiers still registered in the workspace's weak-reference registries whose entity is dead
             (removed through its parent) and whose flat node has not been swept.

   Python transcribed (see DESIGN.md appendix D):
     Entity.create -> Workspace.create_entity -> constructor (parent.add_children, register) -> H5Writer.save_entity
       (write_entity: an existing flat node is returned UNTOUCHED; write_to_parent: link added if absent)
     scalar / array setters -> update_attribute -> H5Writer.update_field (write_attributes / write_array_attribute)
     Entity.parent setter (move) -> remove_child on the old parent, save_entity (link under the new parent)
     Workspace.remove_entity -> remove_recursively (all children, then) -> remove_child, H5Writer.remove_entity
     parent.remove_children([e]) -> remove_child only (flat node stays)
     listing getters ws.groups / ws.objects / ws.data -> remove_none_referents (sweep dead registered ids of one kind)
     close (sweeps groups only; save_entity(root) re-links what is missing) and open (load from Root by flat lookups). *)
From GV Require Import Prelude.Base.

Inductive kind := KG | KO | KD.
Definition kind_eqb (a b : kind) : bool :=
  match a, b with KG, KG | KO, KO | KD, KD => true | _, _ => false end.
Definition key : Type := (kind * N)%type.
Definition key_eqb (a b : key) : bool := kind_eqb (fst a) (fst b) && N.eqb (snd a) (snd b).

Record attrs := { aname : N; adel : bool; aarr : N }.
Definition attrs_eqb (a b : attrs) : bool :=
  N.eqb (aname a) (aname b) && Bool.eqb (adel a) (adel b) && N.eqb (aarr a) (aarr b).

(* ---------------- memory: the entity tree ---------------- *)
Inductive tree := Node (k : key) (a : attrs) (kids : list tree).
Definition tkey (t : tree) : key := let 'Node k _ _ := t in k.
Definition tattrs (t : tree) : attrs := let 'Node _ a _ := t in a.
Definition tkids (t : tree) : list tree := let 'Node _ _ l := t in l.

Fixpoint keys_of (t : tree) : list key :=
  let 'Node k _ l := t in k :: flat_map keys_of l.

Fixpoint find (x : key) (t : tree) : option tree :=
  let 'Node k a l := t in
  if key_eqb x k then Some t
  else (fix go (l : list tree) : option tree :=
          match l with [] => None | c :: r => match find x c with Some s => Some s | None => go r end end) l.

(* apply f to the node with key x (first occurrence in pre-order) *)
Fixpoint upd (x : key) (f : tree -> tree) (t : tree) : tree :=
  let 'Node k a l := t in
  if key_eqb x k then f t
  else Node k a ((fix go (l : list tree) : list tree :=
                    match l with [] => [] | c :: r => upd x f c :: go r end) l).

(* remove the subtree rooted at x (never the root itself) *)
Fixpoint prune (x : key) (t : tree) : tree :=
  let 'Node k a l := t in
  Node k a ((fix go (l : list tree) : list tree :=
               match l with
               | [] => []
               | c :: r => if key_eqb x (tkey c) then go r else prune x c :: go r
               end) l).

Definition parent_of (x : key) (t : tree) : option key :=
  (fix go (fuel : list key) : option key :=
     match fuel with
     | [] => None
     | p :: r => match find p t with
                 | Some (Node _ _ l) => if existsb (fun c => key_eqb x (tkey c)) l then Some p else go r
                 | None => go r
                 end
     end) (keys_of t).

Definition add_kid (c : tree) (t : tree) : tree := let 'Node k a l := t in Node k a (l ++ [c]).
Definition set_attrs (a' : attrs) (t : tree) : tree := let 'Node k _ l := t in Node k a' l.

Definition mem_key (x : key) (l : list key) : bool := existsb (key_eqb x) l.

(* ---------------- file ---------------- *)
Record fnode := { fattrs : attrs; faddr : N; flinks : list (key * N) }.
Definition flatmap := list (key * fnode).

Fixpoint fget (x : key) (m : flatmap) : option fnode :=
  match m with [] => None | (k, n) :: r => if key_eqb x k then Some n else fget x r end.
Fixpoint fset (x : key) (n : fnode) (m : flatmap) : flatmap :=
  match m with
  | [] => [(x, n)]
  | (k, o) :: r => if key_eqb x k then (k, n) :: r else (k, o) :: fset x n r
  end.
Fixpoint fdel (x : key) (m : flatmap) : flatmap :=
  match m with [] => [] | (k, o) :: r => if key_eqb x k then r else (k, o) :: fdel x r end.

Fixpoint lget (x : key) (l : list (key * N)) : option N :=
  match l with [] => None | (k, a) :: r => if key_eqb x k then Some a else lget x r end.
Fixpoint ldel (x : key) (l : list (key * N)) : list (key * N) :=
  match l with [] => [] | (k, a) :: r => if key_eqb x k then r else (k, a) :: ldel x r end.

Record file := { flat : flatmap; rootlink : option (key * N); next : N }.

(* H5Writer.write_entity: an existing node is left untouched; a new node gets a fresh address and no links *)
Definition w_entity (x : key) (a : attrs) (f : file) : file :=
  match fget x (flat f) with
  | Some _ => f
  | None => {| flat := fset x {| fattrs := a; faddr := next f; flinks := [] |} (flat f);
               rootlink := rootlink f; next := N.succ (next f) |}
  end.

(* H5Writer.write_to_parent, linking part: add the hard link under the parent's node when the name is absent *)
Definition w_link (p x : key) (f : file) : file :=
  match fget p (flat f), fget x (flat f) with
  | Some pn, Some xn =>
      match lget x (flinks pn) with
      | Some _ => f
      | None => {| flat := fset p {| fattrs := fattrs pn; faddr := faddr pn; flinks := flinks pn ++ [(x, faddr xn)] |} (flat f);
                   rootlink := rootlink f; next := next f |}
      end
  | _, _ => f
  end.

(* H5Writer.remove_child *)
Definition w_unlink (p x : key) (f : file) : file :=
  match fget p (flat f) with
  | Some pn => {| flat := fset p {| fattrs := fattrs pn; faddr := faddr pn; flinks := ldel x (flinks pn) |} (flat f);
                  rootlink := rootlink f; next := next f |}
  | None => f
  end.

(* H5Writer.remove_entity on a flat container *)
Definition w_delete (x : key) (f : file) : file :=
  {| flat := fdel x (flat f); rootlink := rootlink f; next := next f |}.

(* H5Writer.update_field "attributes" (write_attributes): rewrites the scalar attributes of the target node only;
   update_field <array> (write_array_attribute / write_data_values): rewrites the array dataset of the target node only *)
Definition w_scalars (x : key) (a : attrs) (f : file) : file :=
  match fget x (flat f) with
  | Some n => {| flat := fset x {| fattrs := {| aname := aname a; adel := adel a; aarr := aarr (fattrs n) |};
                                   faddr := faddr n; flinks := flinks n |} (flat f);
                 rootlink := rootlink f; next := next f |}
  | None => f
  end.
Definition w_array (x : key) (a : attrs) (f : file) : file :=
  match fget x (flat f) with
  | Some n => {| flat := fset x {| fattrs := {| aname := aname (fattrs n); adel := adel (fattrs n); aarr := aarr a |};
                                   faddr := faddr n; flinks := flinks n |} (flat f);
                 rootlink := rootlink f; next := next f |}
  | None => f
  end.

(* ---------------- workspace state ---------------- *)
Record ws := { wmem : tree; wfile : file; wpend : list key }.

Definition rootkey : key := (KG, 0%N).
Definition root_attrs : attrs := {| aname := 0%N; adel := true; aarr := 0%N |}.

Definition init : ws :=
  let f0 := {| flat := []; rootlink := None; next := 1%N |} in
  let f1 := w_entity rootkey root_attrs f0 in
  {| wmem := Node rootkey root_attrs [];
     wfile := {| flat := flat f1; rootlink := Some (rootkey, 1%N); next := next f1 |};
     wpend := [] |}.

Inductive outcome := Done | Refused | Raised.

Inductive op :=
| Create (k : kind) (u : N) (p : key) (name arr : N)
| SetName (e : key) (n : N)
| SetDel (e : key) (b : bool)
| SetArr (e : key) (a : N)
| Move (e q : key)
| RemoveWs (e : key)
| RemoveParent (e : key)
| Sweep (k : kind)
| Reopen.

Definition can_hold (p c : kind) : bool :=
  match p, c with KG, KG | KG, KO | KO, KD => true | _, _ => false end.

Definition rm_key (x : key) (l : list key) : list key := filter (fun k => negb (key_eqb x k)) l.

(* --- creation --- *)
Definition do_create (w : ws) (k : kind) (u : N) (p : key) (name arr : N) : ws * outcome :=
  let x := (k, u) in
  match find p (wmem w) with
  | None => (w, Refused)
  | Some _ =>
      if negb (can_hold (fst p) k) || mem_key x (keys_of (wmem w)) then (w, Refused)
      else
        let a := {| aname := name; adel := true; aarr := arr |} in
        let f1 := w_entity x a (wfile w) in
        let f2 := w_link p x f1 in
        ({| wmem := upd p (add_kid (Node x a [])) (wmem w); wfile := f2; wpend := rm_key x (wpend w) |}, Done)
  end.

(* --- attribute setters --- *)
Definition do_set (w : ws) (e : key) (g : attrs -> attrs) (wr : key -> attrs -> file -> file) : ws * outcome :=
  match find e (wmem w) with
  | None => (w, Refused)
  | Some t =>
      if key_eqb e rootkey then (w, Refused) else
      let a := g (tattrs t) in
      ({| wmem := upd e (set_attrs a) (wmem w); wfile := wr e a (wfile w); wpend := wpend w |}, Done)
  end.

(* --- move --- *)
(* save_entity(e) after the move re-visits the whole subtree: write_entity (no-op for stored nodes, creates missing
   ones), then links each child under its parent when the link is absent *)
Fixpoint save_tree (p : key) (t : tree) (f : file) : file :=
  let 'Node k a l := t in
  let f1 := w_entity k a f in
  let f2 := (fix go (l : list tree) (f : file) : file :=
               match l with [] => f | c :: r => go r (save_tree k c f) end) l f1 in
  w_link p k f2.

Definition do_move (w : ws) (e q : key) : ws * outcome :=
  match find e (wmem w), find q (wmem w), parent_of e (wmem w) with
  | Some te, Some _, Some p =>
      if negb (can_hold (fst q) (fst e)) || mem_key q (keys_of te) || key_eqb p q then (w, Refused)
      else
        let m1 := upd q (add_kid te) (prune e (wmem w)) in
        let f1 := w_unlink p e (wfile w) in
        let f2 := save_tree q te f1 in
        ({| wmem := m1; wfile := f2; wpend := wpend w |}, Done)
  | _, _, _ => (w, Refused)
  end.

(* --- removal through the workspace --- *)
(* rm_ws p t f : Workspace.remove_entity(t) where p is t's parent: refuse (UserWarning) when allow_delete is off,
   remove every child first (remove_recursively iterates over a copy of the children list since the repair
   "fix: remove_recursively iterates over a copy of the children list"), unlink from the parent, delete the flat node.
   The boolean is false when a non-deletable entity was met: the exception propagates and the caller stops there,
   leaving the effects of the removals already completed. *)
Fixpoint rm_ws (p : key) (t : tree) (f : file) : file * bool :=
  let 'Node k a l := t in
  if negb (adel a) then (f, false)
  else
    let '(f1, ok) :=
      (fix go (l : list tree) (f : file) : file * bool :=
         match l with
         | [] => (f, true)
         | c :: r => let '(f', ok) := rm_ws k c f in if ok then go r f' else (f', false)
         end) l f in
    if negb ok then (f1, false) else (w_delete k (w_unlink p k f1), true).

(* the entities whose removal completed (they leave the tree), in order *)
Fixpoint rm_ws_done (t : tree) : list key * bool :=
  let 'Node k a l := t in
  if negb (adel a) then ([], false)
  else
    let '(dn, ok) :=
      (fix go (l : list tree) : list key * bool :=
         match l with
         | [] => ([], true)
         | c :: r => let '(d, ok) := rm_ws_done c in
                     if ok then let '(d', ok') := go r in (d ++ d', ok') else (d, false)
         end) l in
    if ok then ([k], true) else (dn, false).

Definition do_remove_ws (w : ws) (e : key) : ws * outcome :=
  match find e (wmem w), parent_of e (wmem w) with
  | Some te, Some p =>
      let '(f', ok) := rm_ws p te (wfile w) in
      let '(gone, _) := rm_ws_done te in
      let m' := fold_left (fun m k => prune k m) gone (wmem w) in
      ({| wmem := m'; wfile := f'; wpend := wpend w |}, if ok then Done else Raised)
  | _, _ => (w, Refused)
  end.

(* --- removal through the parent --- *)
Definition do_remove_parent (w : ws) (e : key) : ws * outcome :=
  match find e (wmem w), parent_of e (wmem w) with
  | Some te, Some p =>
      ({| wmem := prune e (wmem w); wfile := w_unlink p e (wfile w); wpend := wpend w ++ keys_of te |}, Done)
  | _, _ => (w, Refused)
  end.

(* --- listing getter: sweep dead registered identifiers of one kind --- *)
Definition do_sweep (w : ws) (k : kind) : ws :=
  let dead := filter (fun x => kind_eqb (fst x) k) (wpend w) in
  {| wmem := wmem w;
     wfile := fold_left (fun f x => w_delete x f) dead (wfile w);
     wpend := filter (fun x => negb (kind_eqb (fst x) k)) (wpend w) |}.

(* --- close + open --- *)
(* load: from the Root link, follow child link names, reading every entity from the flat containers *)
(* HDF5 iterates a group's members by name: child containers "Data" < "Groups" < "Objects", then identifiers *)
Definition kind_rank (k : kind) : N := match k with KD => 0 | KG => 1 | KO => 2 end%N.
Definition key_leb (a b : key) : bool :=
  if N.eqb (kind_rank (fst a)) (kind_rank (fst b)) then N.leb (snd a) (snd b)
  else N.ltb (kind_rank (fst a)) (kind_rank (fst b)).
Fixpoint ins_link (x : key * N) (l : list (key * N)) : list (key * N) :=
  match l with
  | [] => [x]
  | y :: r => if key_leb (fst x) (fst y) then x :: l else y :: ins_link x r
  end.
Definition sort_links (l : list (key * N)) : list (key * N) := fold_right ins_link [] l.

(* The loader registers every entity once: an identifier already registered (seen) is not loaded again and is not
   attached to a second parent (Workspace.fetch_children: `get_entity(uid)` finds it, load_entity is skipped).
   Children are visited depth-first, in HDF5 name order.  Returns the subtree and the registered identifiers. *)
Fixpoint load (fuel : nat) (m : flatmap) (seen : list key) (x : key) : option (tree * list key) :=
  match fuel with
  | O => None
  | S fuel' =>
      match fget x m with
      | None => None
      | Some n =>
          let '(kids, seen') :=
            fold_left (fun (acc : list tree * list key) (l : key * N) =>
                         let '(ks, sn) := acc in
                         if mem_key (fst l) sn then (ks, sn)
                         else match load fuel' m sn (fst l) with
                              | Some (t, sn') => (ks ++ [t], sn')
                              | None => (ks, sn)
                              end)
                      (sort_links (flinks n)) ([], x :: seen) in
          Some (Node x (fattrs n) kids, seen')
      end
  end.

Definition close_file (w : ws) : ws :=
  let w1 := do_sweep w KG in
  let 'Node k a l := wmem w1 in
  let f1 := w_entity k a (wfile w1) in
  let f2 := fold_left (fun f c => save_tree k c f) l f1 in
  {| wmem := wmem w1; wfile := f2; wpend := wpend w1 |}.

Definition do_reopen (w : ws) : ws * outcome :=
  let w1 := close_file w in
  match rootlink (wfile w1) with
  | Some (r, _) =>
      match load (S (length (flat (wfile w1)))) (flat (wfile w1)) [] r with
      | Some (t, _) => ({| wmem := t; wfile := wfile w1; wpend := [] |}, Done)
      | None => (w1, Raised)
      end
  | None => (w1, Raised)
  end.

Definition step (w : ws) (o : op) : ws * outcome :=
  match o with
  | Create k u p n a => do_create w k u p n a
  | SetName e n => do_set w e (fun a => {| aname := n; adel := adel a; aarr := aarr a |}) w_scalars
  | SetDel e b => do_set w e (fun a => {| aname := aname a; adel := b; aarr := aarr a |}) w_scalars
  | SetArr e v => do_set w e (fun a => {| aname := aname a; adel := adel a; aarr := v |}) w_array
  | Move e q => do_move w e q
  | RemoveWs e => if key_eqb e rootkey then (w, Refused) else do_remove_ws w e
  | RemoveParent e => if key_eqb e rootkey then (w, Refused) else do_remove_parent w e
  | Sweep k => (do_sweep w k, Done)
  | Reopen => do_reopen w
  end.

Definition run (ops : list op) (w : ws) : ws := fold_left (fun w o => fst (step w o)) ops w.

(* ---------------- observations (what the driver dumps) ---------------- *)
(* memory dump: one row per entity in pre-order: key, attrs, parent key, children keys *)
Fixpoint dump_mem (p : key) (t : tree) : list (key * attrs * key * list key) :=
  let 'Node k a l := t in (k, a, p, map tkey l) :: flat_map (dump_mem k) l.

(* file dump: per flat node: key, attrs, links as (child key, link address = address of the child's flat node?) *)
Definition link_state (m : flatmap) (l : key * N) : key * option bool :=
  match fget (fst l) m with
  | Some n => (fst l, Some (N.eqb (snd l) (faddr n)))
  | None => (fst l, None)
  end.
Definition dump_file (f : file) : list (key * attrs * list (key * option bool)) * option (key * option bool) :=
  (map (fun '(k, n) => (k, fattrs n, map (link_state (flat f)) (flinks n))) (flat f),
   match rootlink f with Some l => Some (link_state (flat f) l) | None => None end).
