(* C03 — the setters whose write-through is refuted today (one line each; mirrored in findings.d/C03.json, key = name).
   "Class.attribute" = the setter defined in Class, for every concrete class that inherits it;
   "Class.attribute@kind" = the same restricted to classes of one kind (object|group|concatenator|data|type|other).
   Not an allow-list that can grow silently: Properties/C03.v proves that every name here has a machine-checked loss
   witness in the table extracted from the current source (a repaired setter makes [C03_listed_exact] fail), and the
   oracle replays each on the real code.  When a fixes/C03-<name>.patch is applied to the repository, delete the line. *)
From Coq Require Import String List.
Import ListNotations.
Local Open Scope string_scope.

Definition C03_listed : list string := [
  "Data.association";
  "DataType.primitive_type";
  "PropertyGroup.name";
  "PropertyGroup.association";
  "PropertyGroup.property_group_type";
  "PropertyGroup.properties";
  "GeoImage.tag";
  "Drillhole.default_collocation_distance";
  "PropertyGroup.allow_delete";
  "Workspace.contributors";                 (* no persistence call exists for the project header *)
  "Workspace.distance_unit";
  "Workspace.ga_version";
  "Workspace.version";
  "ColorMap.name";                          (* a ColorMap has no way to reach the file *)
  "ColorMap.values";
  "ReferenceValueMap.map";
  "ReferenceValueMap.__setitem__";
  (* the persistence call re-fetches the blob under the *new* file name, finds nothing, deletes the name and returns *)
  "FilenameData.file_name";
  (* write_data_values wraps every dictionary written for a CommentsData into {"Comments": ...} *)
  "Entity.metadata@CommentsData";
  "Entity.coordinate_reference_system@CommentsData";
  (* the datasets of a Concatenator (drillhole group) are written under "Concatenated Data", where no reader looks *)
  "Entity.metadata@concatenator";
  "Entity.coordinate_reference_system@concatenator"
].
