(* Model of geoh5py/objects/octree.py : Octree.base_refine, octree_cells, centroids, n_cells  (property C17).
   Definitions only; proofs live in Proofs/OctreeProofs.v.

   u_count, v_count, w_count are powers of two (enforced by the setters: np.log2(value) % 1.0 == 0), given here by
   their exponents eu, ev, ew : nat, so "all power-of-two dimensions" is "all eu ev ew" (unbounded). *)
From GV Require Import Prelude.Base Model.GridIndex.
From Coq Require Import QArith.
Close Scope Q_scope.

Definition ocell : Type := (Z * Z * Z * Z)%type.       (* I, J, K, NCells *)

(* np.arange(0, n, step) for step > 0 *)
Definition arange (n step : Z) : list Z :=
  map (fun q => (Z.of_nat q * step)%Z) (seq 0 (Z.to_nat ((n + step - 1) / step))).

(* Octree.base_refine, line by line (levels are the float log2 of the counts: exact integers here) *)
Definition base_refine (eu ev ew : nat) : list ocell :=
  let level_u := Z.of_nat eu in
  let level_v := Z.of_nat ev in
  let level_w := Z.of_nat ew in
  let min_level := Z.min level_u (Z.min level_v level_w) in
  let level := Z.min 0 min_level in
  let add_u := (level_u - min_level)%Z in
  let add_v := (level_v - min_level)%Z in
  let add_w := (level_w - min_level)%Z in
  let jv := arange (2 ^ level_v) (2 ^ (level_v - add_v - level)) in
  let kv := arange (2 ^ level_w) (2 ^ (level_w - add_w - level)) in
  let iv := arange (2 ^ level_u) (2 ^ (level_u - add_u - level)) in
  let size := (2 ^ (min_level - level))%Z in
  (* j, k, i = np.meshgrid(jv, kv, iv): shape (len kv, len jv, len iv); flatten() in C order *)
  flat_map (fun k => flat_map (fun j => map (fun i => (i, j, k, size)) iv) jv) kv.

Definition covers (c : ocell) (a b d : Z) : Prop :=
  let '(i, j, k, s) := c in (i <= a < i + s /\ j <= b < j + s /\ k <= d < k + s)%Z.
Definition coversb (c : ocell) (a b d : Z) : bool :=
  let '(i, j, k, s) := c in
  ((i <=? a) && (a <? i + s) && (j <=? b) && (b <? j + s) && (k <=? d) && (d <? k + s))%Z.

Section Oct.
  Variable rotm : Q -> V3 -> V3.

  Record octree := {
    o_origin : option V3;        (* None: never given *)
    o_rotation : Q;
    o_eu : nat; o_ev : nat; o_ew : nat;
    o_su : Q; o_sv : Q; o_sw : Q;
    o_cells : option (list ocell);   (* self._octree_cells; None until first read (then base_refine) *)
    o_cache : option (list V3)
  }.

  (* (octree_cells["I"] + octree_cells["NCells"] / 2.0) * u_cell_size, ... *)
  Definition o_local (su sv sw : Q) (c : ocell) : V3 :=
    let '(i, j, k, n) := c in
    ((inject_Z i + inject_Z n / 2) * su, (inject_Z j + inject_Z n / 2) * sv, (inject_Z k + inject_Z n / 2) * sw)%Q.

  Definition o_cells_or_default (o : octree) : list ocell :=
    match o_cells o with Some c => c | None => base_refine (o_eu o) (o_ev o) (o_ew o) end.

  Definition o_place (o : octree) (org : V3) (p : V3) : V3 := vadd (rotm (o_rotation o) p) org.

  (* repaired code (fixes/C17-default-origin.patch): the default origin is a structured zero *)
  Definition o_compute (o : octree) : list V3 :=
    map (fun c => o_place o (origin_or_zero (o_origin o)) (o_local (o_su o) (o_sv o) (o_sw o) c)) (o_cells_or_default o).

  (* pre-repair: np.zeros(3)["x"] raises IndexError *)
  Definition o_compute_old (o : octree) : res (list V3) :=
    match o_origin o with
    | None => Err IndexError
    | Some org => Ok (map (fun c => o_place o org (o_local (o_su o) (o_sv o) (o_sw o) c)) (o_cells_or_default o))
    end.

  Definition o_n_cells (o : octree) : nat := length (o_cells_or_default o).

  Inductive o_op :=
  | ORead
  | OOrigin (p : V3) | ORotation (a : Q) | OSu (s : Q) | OSv (s : Q) | OSw (s : Q) | OCells (c : list ocell)
  | OOriginX (refused : bool) (x : Q).       (* o.origin["x"] = x, see BmOriginX in Model/GridIndex.v *)

  Definition o_mk org r eu ev ew su sv sw cells cache : octree :=
    {| o_origin := org; o_rotation := r; o_eu := eu; o_ev := ev; o_ew := ew; o_su := su; o_sv := sv; o_sw := sw;
       o_cells := cells; o_cache := cache |}.

  Definition o_step (o : octree) (op : o_op) : octree * option (list V3) :=
    let '(org, r, eu, ev, ew, su, sv, sw, cells) :=
      (o_origin o, o_rotation o, o_eu o, o_ev o, o_ew o, o_su o, o_sv o, o_sw o, o_cells o) in
    match op with
    | ORead =>
        match o_cache o with
        | Some c => (o, Some c)
        | None =>
            let c := o_compute o in
            (* reading octree_cells stores the base refinement *)
            (o_mk org r eu ev ew su sv sw (Some (o_cells_or_default o)) (Some c), Some c)
        end
    | OOrigin p => (o_mk (Some p) r eu ev ew su sv sw cells None, None)
    | ORotation a => (o_mk org a eu ev ew su sv sw cells None, None)
    | OSu s => (o_mk org r eu ev ew s sv sw cells None, None)
    | OSv s => (o_mk org r eu ev ew su s sw cells None, None)
    | OSw s => (o_mk org r eu ev ew su sv s cells None, None)
    | OCells c => (o_mk org r eu ev ew su sv sw (Some c) None, None)
    | OOriginX true _ => (o, None)
    | OOriginX false x => (o_mk (Some (set_x x (origin_or_zero org))) r eu ev ew su sv sw cells (o_cache o), None)
    end.

  Fixpoint o_run (o : octree) (ops : list o_op) : octree * list (list V3) :=
    match ops with
    | [] => (o, [])
    | op :: r =>
        let '(o1, out) := o_step o op in
        let '(o2, outs) := o_run o1 r in
        (o2, match out with Some c => c :: outs | None => outs end)
    end.
End Oct.

Definition ocell_eqb (a b : ocell) : bool :=
  let '(i, j, k, s) := a in let '(p, q, r, t) := b in (Z.eqb i p && Z.eqb j q && Z.eqb k r && Z.eqb s t)%bool.

(* default cells as read back from the implementation + the centroids after each read *)
Definition o_agree (o : octree) (ops : list o_op) (cells : list ocell) (obs : list (list V3)) : bool :=
  list_eqb ocell_eqb (o_cells_or_default o) cells && outs_eqb (snd (o_run rot_exact o ops)) obs.
