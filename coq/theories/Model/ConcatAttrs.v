(* Model of the attribute / API layer of concatenated drillhole storage (property C04).
   Definitions only.  Builds on Model/Concat.v (the index tables).

   Python transcribed:
     Concatenator.{get_concatenated_attributes, attributes_keys, update_concatenated_attributes, add_save_concatenated,
                   concatenated_object_ids, remove_entity, update_attributes}                 (concatenator.py)
     ConcatenatedData.parent setter ("Property:<name>" keys), .property_group, .n_values         (data.py)
     ConcatenatedObject.{remove_children, property_groups, _fetch_concatenated_children}        (object.py)
     ConcatenatedPropertyGroup.{depth_, remove_properties} + PropertyGroup.{add,remove}_properties (property_group.py)
     ConcatenatedDrillhole.{validate_data, validate_depth_data} / Drillhole.add_data              (drillhole.py)
     NumericData.values setter / format_length                                                   (numeric_data.py)
     Workspace.remove_entity (concatenated entities go through parent.remove_children)         (workspace.py)
   in the regime driven by tools/props/c04.py: depth tables only, property groups addressed by name.
   The model follows /repo including the repairs 8a1b56f (hole removal deletes the hole's own rows), c8cb1ac (removal through
   the workspace = removal through the parent), 63969e8 (free DEPTH(k) name), ed8ec63 (add_data honours the named group);
   the rename defects are transcribed as they are (Rename only rewrites the record's Name).

   Numbering: labels 0 Surveys, 1 Trace, 2 Property Group IDs, 10+k "DEPTH"/"DEPTH(k)", 100+j data name "d<j>";
   entity ids are positive naturals chosen by the case (0 = null uuid).                                        *)
From GV Require Import Prelude.Base Model.Concat.

Definition L_SURV := 0.
Definition L_TRACE := 1.
Definition L_PG := 2.
Definition depth_label (k : nat) : nat := 10 + k.
Definition is_depth_label (l : nat) : bool := Nat.leb 10 l && Nat.ltb l 100.   (* "depth" in name.lower() *)

Inductive kind := KHole | KData | KPG.
Definition kind_eqb (a b : kind) : bool :=
  match a, b with KHole, KHole | KData, KData | KPG, KPG => true | _, _ => false end.

(* one element of concatenated_attributes["Attributes"] (attributes_keys is the list of their IDs):
   holes:  a_name = hole number, a_props = the "Property:<label>" -> data id entries in dict order
   data:   a_name = current Name (a label)
   groups: a_name = group name number, a_members = "Properties"                                             *)
Record arec := mkrec { a_id : nat; a_kind : kind; a_name : nat; a_props : list (nat * nat); a_members : list nat }.

Record astate := mkst { st : store; recs : list arec; objids : list nat }.
Definition init : astate := mkst [] [] [].

Inductive ares := AOk (s : astate) | ASoft (e : err) (s : astate) | AHard (e : err).

(* ---------------- record list helpers ---------------- *)
Fixpoint find_rec (id : nat) (l : list arec) : option arec :=
  match l with [] => None | r :: l' => if Nat.eqb (a_id r) id then Some r else find_rec id l' end.

Fixpoint upd_rec (id : nat) (f : arec -> arec) (l : list arec) : list arec :=
  match l with [] => [] | r :: l' => if Nat.eqb (a_id r) id then f r :: l' else r :: upd_rec id f l' end.

Fixpoint del_rec (id : nat) (l : list arec) : list arec :=
  match l with [] => [] | r :: l' => if Nat.eqb (a_id r) id then l' else r :: del_rec id l' end.

Definition memb (x : nat) (l : list nat) : bool := existsb (Nat.eqb x) l.
Fixpoint remove_first (x : nat) (l : list nat) : list nat :=
  match l with [] => [] | y :: r => if Nat.eqb y x then r else y :: remove_first x r end.
Fixpoint del_key (k : nat) (l : list (nat * nat)) : list (nat * nat) :=
  match l with [] => [] | (a, b) :: r => if Nat.eqb a k then r else (a, b) :: del_key k r end.
Definition has_key (k : nat) (l : list (nat * nat)) : bool := existsb (fun p => Nat.eqb (fst p) k) l.
Fixpoint nodup_nat (l : list nat) : list nat :=
  match l with [] => [] | x :: r => if memb x r then nodup_nat r else x :: nodup_nat r end.

Definition set_props (p : list (nat * nat)) (r : arec) := mkrec (a_id r) (a_kind r) (a_name r) p (a_members r).
Definition set_members (m : list nat) (r : arec) := mkrec (a_id r) (a_kind r) (a_name r) (a_props r) m.
Definition set_name (n : nat) (r : arec) := mkrec (a_id r) (a_kind r) n (a_props r) (a_members r).

Definition with_st (s : astate) (x : store) := mkst x (recs s) (objids s).
Definition with_recs (s : astate) (x : list arec) := mkst (st s) x (objids s).

Definition ids_val (l : list nat) : list val := map (fun i => Some (Z.of_nat i)) l.
Definition val_id (v : val) : nat := match v with Some z => Z.to_nat z | None => 0 end.

(* hole._property_groups, kept in step with the hole's "Property Group IDs" row *)
Definition pgs_of (s : astate) (h : nat) : list nat :=
  match sfetch (st s) L_PG h 0 with Some vs => map val_id vs | None => [] end.

Definition keys_of (s : astate) (h : nat) : list (nat * nat) :=
  match find_rec h (recs s) with Some r => a_props r | None => [] end.

(* PropertyGroup.depth_: the first property, when its name contains "depth" *)
Definition depth_of (s : astate) (pg : nat) : option nat :=
  match find_rec pg (recs s) with
  | Some r => match a_members r with
              | dd :: _ => match find_rec dd (recs s) with
                           | Some rd => if is_depth_label (a_name rd) then Some dd else None
                           | None => None
                           end
              | [] => None
              end
  | None => None
  end.

(* depth_.values of a group of hole h *)
Definition depth_vals (s : astate) (h pg : nat) : option (list val) :=
  match depth_of s pg with
  | Some dd => match find_rec dd (recs s) with
               | Some rd => sfetch (st s) (a_name rd) h dd
               | None => None
               end
  | None => None
  end.

(* ConcatenatedData.property_group: first group of the parent whose properties contain the uid *)
Definition pg_of_data (s : astate) (h d : nat) : option nat :=
  find (fun pg => match find_rec pg (recs s) with Some r => memb d (a_members r) | None => false end) (pgs_of s h).

Definition pg_by_name (s : astate) (h pgname : nat) : option nat :=
  find (fun pg => match find_rec pg (recs s) with Some r => Nat.eqb (a_name r) pgname | None => false end) (pgs_of s h).

(* len(self.depth_) of the hole: groups whose first property is a depth *)
Definition n_depth_groups (s : astate) (h : nat) : nat :=
  length (filter (fun pg => match depth_of s pg with Some _ => true | None => false end) (pgs_of s h)).

(* `while f"DEPTH{label}" in self.get_data_list(): ind += 1` (fuel = number of keys + 1 is enough) *)
Fixpoint first_free (keys : list (nat * nat)) (k fuel : nat) : nat :=
  match fuel with
  | 0 => k
  | S f => if has_key (depth_label k) keys then first_free keys (S k) f else k
  end.

Fixpoint pad (vs : list val) (n : nat) : list val :=     (* np.pad(values, (0, n - len), nan) *)
  match n with
  | 0 => vs
  | S n' => match vs with [] => None :: pad [] n' | v :: r => v :: pad r n' end
  end.

Definition lput (s : astate) (op : lop) : res astate :=
  match lstep (st s) op with Ok x => Ok (with_st s x) | Err e => Err e end.

Definition fresh (s : astate) (id : nat) : bool :=
  negb (Nat.eqb id 0) && match find_rec id (recs s) with None => true | Some _ => false end.

(* ---------------- creation of one data entity under hole h in group pg ----------------
   parent setter: Property:<name> key;  add_save_concatenated: record, rows;  add_data_to_group: Properties, PG row *)
Definition create_data (s : astate) (h pg d name : nat) (vs : list val) : res astate :=
  let recs1 := upd_rec h (fun r => set_props (a_props r ++ [(name, d)]) r) (recs s) in
  let recs2 := recs1 ++ [mkrec d KData name [] []] in
  let recs3 := upd_rec pg (fun r => set_members (a_members r ++ [d]) r) recs2 in
  match lput (with_recs s recs3) (Put name h d vs) with
  | Err e => Err e
  | Ok s1 => lput s1 (Put L_PG h 0 (ids_val (pgs_of s h)))
  end.

(* ---------------- removal of one data entity (Concatenator.remove_entity, data branch) ---------------- *)
Definition remove_pg_entity (s : astate) (h pg : nat) : res astate :=
  let pgs' := remove_first pg (pgs_of s h) in
  match lput s (Put L_PG h 0 (ids_val pgs')) with
  | Err e => Err e
  | Ok s1 => Ok (with_recs s1 (del_rec pg (recs s1)))
  end.

(* without the depth cascade of ConcatenatedPropertyGroup.remove_properties *)
Definition rm_data_simple (s : astate) (h d : nat) : res astate :=
  match find_rec d (recs s) with
  | None => Err Unsupported
  | Some rd =>
      let name := a_name rd in
      match lput s (Del name h d) with
      | Err e => Err e
      | Ok s1 =>
          let after_pg :=
            match pg_of_data s1 h d with
            | None => Ok s1
            | Some pg =>
                match find_rec pg (recs s1) with
                | None => Err Unsupported
                | Some rp =>
                    let m' := remove_first d (a_members rp) in
                    let s2 := with_recs s1 (upd_rec pg (set_members m') (recs s1)) in
                    match m' with
                    | [] => remove_pg_entity s2 h pg                              (* workspace.remove_entity(group) *)
                    | _ => lput s2 (Put L_PG h 0 (ids_val (pgs_of s2 h)))          (* add_or_update_property_group *)
                    end
                end
            end in
          match after_pg with
          | Err e => Err e
          | Ok s3 =>
              if has_key name (keys_of s3 h)
              then Ok (with_recs s3 (del_rec d (upd_rec h (fun r => set_props (del_key name (a_props r)) r) (recs s3))))
              else Err KeyError                                                    (* del parent_attr["Property:<name>"] *)
          end
      end
  end.

(* with the cascade: when one property is left and it is the depth, the depth goes too (and with it the group) *)
Definition rm_data (s : astate) (h d : nat) : res astate :=
  let pg0 := pg_of_data s h d in
  match rm_data_simple s h d with
  | Err e => Err e
  | Ok s1 =>
      match pg0 with
      | None => Ok s1
      | Some pg =>
          match find_rec pg (recs s1) with
          | Some rp => match a_members rp, depth_of s1 pg with
                       | [x], Some dd => rm_data_simple s1 h dd
                       | _, _ => Ok s1
                       end
          | None => Ok s1
          end
      end
  end.

Fixpoint rm_datas (s : astate) (h : nat) (ds : list nat) : res astate :=
  match ds with
  | [] => Ok s
  | d :: r => match find_rec d (recs s) with
              | None => rm_datas s h r                 (* `if child not in self._children: continue` *)
              | Some _ => match rm_data s h d with Err e => Err e | Ok s1 => rm_datas s1 h r end
              end
  end.

(* Concatenator.remove_entity, property group branch *)
Definition rm_pg (s : astate) (h pg : nat) : res astate :=
  match find_rec pg (recs s) with
  | None => Err Unsupported
  | Some rp =>
      match rm_datas s h (a_members rp) with
      | Err e => Err e
      | Ok s1 =>
          match lput s1 (Put L_PG h 0 (ids_val (remove_first pg (pgs_of s1 h)))) with
          | Err e => Err e
          | Ok s2 => Ok (with_recs s2 (del_rec pg (recs s2)))
          end
      end
  end.

Fixpoint rm_pgs (s : astate) (h : nat) (pgs : list nat) : res astate :=
  match pgs with
  | [] => Ok s
  | pg :: r => match find_rec pg (recs s) with
               | None => rm_pgs s h r
               | Some _ => match rm_pg s h pg with Err e => Err e | Ok s1 => rm_pgs s1 h r end
               end
  end.

(* ---------------- API operations ---------------- *)
Inductive aop :=
| AddHole (h : nat) (surv : option (list val))                       (* Drillhole.create(ws, parent=group, surveys=...) *)
| SetSurveys (h : nat) (surv : list val)                             (* hole.surveys = ... *)
| AddData (h pgname name pgid depid did : nat) (depth : option (list val)) (vals : list val)
                                                                     (* hole.add_data({name: {[depth], values}}, property_group=pgname) *)
| AddPG (h pgname pgid : nat)                                        (* hole.find_or_create_property_group(name=...) *)
| SetValues (h d : nat) (vals : list val)                            (* data.values = ... *)
| Rename (h d newname : nat)                                         (* data.name = ... *)
| RemoveData (h d : nat) (via_ws : bool)                             (* ws.remove_entity(data) | hole.remove_children(data) *)
| RemovePG (h pg : nat) (via_ws : bool)
| RemoveHole (h : nat) (via_ws : bool)                               (* ws.remove_entity(hole) | group.remove_children(hole) *)
| Reopen                                                             (* close, open, load every hole's children *)
| AddObjData (h name did : nat) (vals : list val)                    (* hole.add_data({name: {values, association: OBJECT}}): no depth table, no group *)
| SaveHole (h : nat)                                                 (* workspace.save_entity(hole) of a stored hole *)
| RemoveViaGroup (h d : nat)                                         (* group.remove_children(data of hole h): not a child of the group, ignored *)
| SetText (h d : nat) (vals : list val).                             (* text_data.values = ...: TextData checks the length but does not pad *)

Definition soft_or_hard (s : astate) (r : res astate) : ares :=
  match r with Ok s' => AOk s' | Err e => AHard e end.

(* the data set is a child of the hole: hole.remove_children / the driver only ever address a hole's own children *)
Definition owns (s : astate) (h d : nat) : bool := existsb (fun p : nat * nat => Nat.eqb (snd p) d) (keys_of s h).

Definition live_hole (s : astate) (h : nat) : bool :=
  memb h (objids s) && match find_rec h (recs s) with Some r => kind_eqb (a_kind r) KHole | None => false end.

Definition new_pg (s : astate) (h pgname pgid : nat) : res astate :=
  let s1 := with_recs s (recs s ++ [mkrec pgid KPG pgname [] []]) in
  lput s1 (Put L_PG h 0 (ids_val (pgs_of s h ++ [pgid]))).

Definition api_step (s : astate) (op : aop) : ares :=
  match op with
  | AddHole h surv =>
      if negb (fresh s h) then AHard Unsupported else
      let s1 := mkst (st s) (recs s ++ [mkrec h KHole h [] []])
                     (if memb h (objids s) then objids s else objids s ++ [h]) in
      soft_or_hard s
        (match lput s1 (match surv with Some vs => Put L_SURV h 0 vs | None => Del L_SURV h 0 end) with
         | Err e => Err e
         | Ok s2 => lput s2 (Del L_TRACE h 0)
         end)
  | SetSurveys h vs =>
      if negb (live_hole s h) then AHard Unsupported else
      soft_or_hard s
        (match lput s (Put L_SURV h 0 vs) with Err e => Err e | Ok s2 => lput s2 (Del L_TRACE h 0) end)
  | AddPG h pgname pgid =>
      if negb (live_hole s h) then AHard Unsupported else
      match pg_by_name s h pgname with
      | Some _ => AOk s
      | None => if fresh s pgid then soft_or_hard s (new_pg s h pgname pgid) else AHard Unsupported
      end
  | AddData h pgname name pgid depid did depth vals =>
      if negb (live_hole s h) then AHard Unsupported else
      if Nat.ltb name 100 then AHard Unsupported else                            (* data names are numbered from 100 *)
      if has_key name (keys_of s h) then ASoft ValueError s else                (* "already present on the drillhole" *)
      let existing := pg_by_name s h pgname in
      let nonempty := match existing with Some pg => match depth_of s pg with Some _ => true | None => false end | None => false end in
      match depth, nonempty with
      | Some _, true => AHard Unsupported                                        (* not driven *)
      | None, false => ASoft AttributeError s                                    (* no depth, and no group to take it from *)
      | Some dv, false =>
          if Nat.ltb (length dv) (length vals) then ASoft ValueError s else      (* Mismatch between input 'depth' and 'values' *)
          if negb (fresh s depid && fresh s did && negb (Nat.eqb depid did)) then AHard Unsupported else
          let dl := depth_label (first_free (keys_of s h) (n_depth_groups s h) (S (length (keys_of s h)))) in
          let r1 := match existing with
                    | Some pg => Ok (s, pg)
                    | None => if fresh s pgid && negb (Nat.eqb pgid depid) && negb (Nat.eqb pgid did)
                              then match new_pg s h pgname pgid with Ok s1 => Ok (s1, pgid) | Err e => Err e end
                              else Err Unsupported
                    end in
          match r1 with
          | Err e => AHard e
          | Ok (s1, pg) =>
              if has_key dl (keys_of s1 h) || Nat.leb 100 dl then AHard Unsupported else   (* cannot happen: dl was chosen free; fewer than 90 groups *)
              match create_data s1 h pg depid dl dv with
              | Err e => AHard e
              | Ok s2 => soft_or_hard s (create_data s2 h pg did name (pad vals (length dv)))
              end
          end
      | None, true =>
          match existing with
          | None => AHard Unsupported
          | Some pg0 =>
              match depth_vals s h pg0 with
              | None => AHard Unsupported
              | Some dv =>
                  if Nat.ltb (length dv) (length vals) then ASoft ValueError s else
                  if negb (fresh s did) then AHard Unsupported else
                  (* validate_depth_data skips the groups other than the requested one and finds it collocated with itself *)
                  soft_or_hard s (create_data s h pg0 did name (pad vals (length dv)))
              end
          end
      end
  | SetValues h d vals =>
      if negb (live_hole s h) then AHard Unsupported else
      if negb (owns s h d) then AHard Unsupported else
      match find_rec d (recs s) with
      | None => AHard Unsupported
      | Some rd =>
          let nvals :=                                                            (* ConcatenatedData.n_values *)
            match pg_of_data s h d with
            | None => Some None
            | Some pg => match depth_of s pg with
                         | None => Some None
                         | Some dd => if Nat.eqb dd d then Some None
                                      else match depth_vals s h pg with Some dv => Some (Some (length dv)) | None => None end
                         end
            end in
          match nvals with
          | None => AHard Unsupported
          | Some None => soft_or_hard s (lput s (Put (a_name rd) h d vals))
          | Some (Some n) =>
              if Nat.ltb n (length vals) then ASoft ValueError s
              else soft_or_hard s (lput s (Put (a_name rd) h d (pad vals n)))
          end
      end
  | Rename h d newname =>
      if negb (live_hole s h) then AHard Unsupported else
      if negb (owns s h d) || Nat.ltb newname 100 then AHard Unsupported else
      match find_rec d (recs s) with
      | None => AHard Unsupported
      | Some _ => AOk (with_recs s (upd_rec d (set_name newname) (recs s)))       (* only the record's Name changes *)
      end
  | RemoveData h d _ =>                                  (* Workspace.remove_entity goes through parent.remove_children *)
      if negb (live_hole s h) then AHard Unsupported else
      if negb (owns s h d) then AHard Unsupported else
      match rm_data s h d with
      | Err e => AHard e
      | Ok s1 => AOk s1
      end
  | RemovePG h pg _ =>
      if negb (live_hole s h) then AHard Unsupported else
      if negb (memb pg (pgs_of s h)) then AHard Unsupported else soft_or_hard s (rm_pg s h pg)
  | RemoveHole h _ =>
      if negb (live_hole s h) then AHard Unsupported else
      match rm_pgs s h (pgs_of s h) with
      | Err e => AHard e
      | Ok s1 =>
          match rm_datas s1 h (nodup_nat (map (fun p : nat * nat => snd p) (keys_of s1 h))) with
          | Err e => AHard e
          | Ok s2 =>
              (* the rows of the hole's own arrays *)
              match lput s2 (Del L_SURV h 0) with
              | Err e => AHard e
              | Ok s3 => match lput s3 (Del L_TRACE h 0) with
                         | Err e => AHard e
                         | Ok s4 => match lput s4 (Del L_PG h 0) with
                                    | Err e => AHard e
                                    | Ok s5 => AOk (mkst (st s5) (del_rec h (recs s5)) (remove_first h (objids s5)))
                                    end
                         end
              end
          end
      end
  | Reopen =>
      (* loading a child whose Name differs from its key adds a second key (parent setter) *)
      let fix_hole (rs : list arec) (r : arec) : arec :=
        match a_kind r with
        | KHole =>
            set_props (fold_left (fun acc (p : nat * nat) =>
                                    match find_rec (snd p) rs with
                                    | Some rd => if has_key (a_name rd) acc then acc else acc ++ [(a_name rd, snd p)]
                                    | None => acc
                                    end) (a_props r) (a_props r)) r
        | _ => r
        end in
      AOk (mkst (st s) (map (fix_hole (recs s)) (recs s)) (objids s))
  | AddObjData h name did vals =>
      if negb (live_hole s h) then AHard Unsupported else
      if Nat.ltb name 100 then AHard Unsupported else
      if has_key name (keys_of s h) then ASoft ValueError s else
      if negb (fresh s did) then AHard Unsupported else
      (* parent setter: Property key; add_save_concatenated: record and rows; no property group, n_values is None *)
      let recs1 := upd_rec h (fun r => set_props (a_props r ++ [(name, did)]) r) (recs s) ++ [mkrec did KData name [] []] in
      soft_or_hard s (lput (with_recs s recs1) (Put name h did vals))
  | SaveHole h =>
      if negb (live_hole s h) then AHard Unsupported else
      (* add_save_concatenated: the record is rewritten unchanged, the object id is already listed (kept), surveys and trace saved again *)
      soft_or_hard s
        (match lput s (match sfetch (st s) L_SURV h 0 with Some vs => Put L_SURV h 0 vs | None => Del L_SURV h 0 end) with
         | Err e => Err e
         | Ok s2 => lput s2 (Del L_TRACE h 0)
         end)
  | RemoveViaGroup h d =>
      if negb (live_hole s h) then AHard Unsupported else
      if negb (owns s h d) then AHard Unsupported else AOk s               (* `if child not in self._children: continue` *)
  | SetText h d vals =>
      if negb (live_hole s h) then AHard Unsupported else
      if negb (owns s h d) then AHard Unsupported else
      match find_rec d (recs s) with
      | None => AHard Unsupported
      | Some rd =>
          let too_long :=                                                        (* values.size > self.n_values *)
            match pg_of_data s h d with
            | None => false
            | Some pg => match depth_vals s h pg with
                         | Some dv => Nat.ltb (length dv) (length vals)
                         | None => false
                         end
            end in
          if too_long then ASoft ValueError s else soft_or_hard s (lput s (Put (a_name rd) h d vals))
      end
  end.

(* the state a run ends in, None when it crashed *)
Fixpoint run_all (s : astate) (ops : list aop) : option astate :=
  match ops with
  | [] => Some s
  | op :: r => match api_step s op with AOk s' | ASoft _ s' => run_all s' r | AHard _ => None end
  end.

(* ---------------- comparison with an observed run ---------------- *)
Definition err_eqb (a b : err) : bool :=
  match a, b with
  | IndexError, IndexError | U4Wrap, U4Wrap | KeyError, KeyError | ValueError, ValueError
  | AttributeError, AttributeError | Unsupported, Unsupported => true
  | _, _ => false
  end.

Definition rec_eqb (a b : arec) : bool :=
  Nat.eqb (a_id a) (a_id b) && kind_eqb (a_kind a) (a_kind b) && Nat.eqb (a_name a) (a_name b)
  && list_eqb (pair_eqb Nat.eqb Nat.eqb) (a_props a) (a_props b) && list_eqb Nat.eqb (a_members a) (a_members b).

(* what the driver records after an operation *)
Record snap := mksnap {
  o_tabs : list (nat * table);                 (* raw Concatenated Data/{Index,Data}/<label>, any order *)
  o_recs : list arec;                          (* concatenated_attributes["Attributes"] in order *)
  o_objs : list nat;                           (* Concatenated object IDs *)
  o_vals : list (nat * nat * nat * option (list val))   (* (label, hole, data id, value read through the API) *)
}.

Inductive oev := OSnap (soft : option err) (sn : snap) | OHard (e : err).

Definition store_eqb (s : store) (obs : list (nat * table)) : bool :=
  Nat.eqb (length s) (length obs)
  && forallb (fun p : nat * table => match sget (fst p) s with Some t => table_eqb t (snd p) | None => false end) obs.

Definition snap_ok (s : astate) (sn : snap) : bool :=
  store_eqb (st s) (o_tabs sn)
  && list_eqb rec_eqb (recs s) (o_recs sn)
  && list_eqb Nat.eqb (objids s) (o_objs sn)
  && forallb (fun q : nat * nat * nat * option (list val) =>
                let '(lab, h, d, v) := q in option_eqb (list_eqb val_eqb) (sfetch (st s) lab h d) v) (o_vals sn).

Fixpoint check_run (s : astate) (ops : list aop) (obs : list oev) : bool :=
  match ops, obs with
  | [], [] => true
  | op :: ops', ev :: obs' =>
      match api_step s op, ev with
      | AOk s', OSnap None sn => snap_ok s' sn && check_run s' ops' obs'
      | ASoft e s', OSnap (Some e') sn => err_eqb e e' && snap_ok s' sn && check_run s' ops' obs'
      | AHard e, OHard e' => err_eqb e e' && match obs' with [] => true | _ => false end
      | _, _ => false
      end
  | _, _ => false
  end.

Definition agree (ops : list aop) (obs : list oev) : bool := check_run init ops obs.

(* group.copy(parent=other workspace) after `ops`, then `cops` on the COPY: the copy starts from the source's state and evolves
   on its own; the source (re-read after every operation on the copy: `ssnaps`) stays what it was *)
Definition agree_copy (ops : list aop) (obs : list oev) (cops : list aop) (cobs : list oev) (ssnaps : list snap) : bool :=
  check_run init ops obs
  && match run_all init ops with
     | Some s => check_run s cops cobs && forallb (snap_ok s) ssnaps
     | None => false
     end.

(* runs observed in segments (a column pushed through DrillholesGroupTable is one observed step but one add_data per hole) *)
Fixpoint check_segments (s : astate) (segs : list (list aop * snap)) : bool :=
  match segs with
  | [] => true
  | (ops, sn) :: r => match run_all s ops with
                      | Some s' => snap_ok s' sn && check_segments s' r
                      | None => false
                      end
  end.
Definition agree_segments (segs : list (list aop * snap)) : bool := check_segments init segs.

(* the model's own run, for replay files *)
Fixpoint arun (s : astate) (ops : list aop) : list ares :=
  match ops with
  | [] => []
  | op :: r => let a := api_step s op in
               a :: match a with AOk s' | ASoft _ s' => arun s' r | AHard _ => [] end
  end.

(* diagnostics for replay files: first step at which model and observation part, and which component
   (1 tables, 2 records, 3 object ids, 4 API values, 5 outcome kind, 6 error kind, 7 length) *)
Definition snap_diag (s : astate) (sn : snap) : nat :=
  if negb (store_eqb (st s) (o_tabs sn)) then 1
  else if negb (list_eqb rec_eqb (recs s) (o_recs sn)) then 2
  else if negb (list_eqb Nat.eqb (objids s) (o_objs sn)) then 3
  else if negb (snap_ok s sn) then 4 else 0.

Fixpoint diag (s : astate) (ops : list aop) (obs : list oev) (i : nat) : option (nat * nat * ares) :=
  match ops, obs with
  | [], [] => None
  | op :: ops', ev :: obs' =>
      let a := api_step s op in
      match a, ev with
      | AOk s', OSnap None sn => match snap_diag s' sn with 0 => diag s' ops' obs' (S i) | c => Some (i, c, a) end
      | ASoft e s', OSnap (Some e') sn =>
          if negb (err_eqb e e') then Some (i, 6, a)
          else match snap_diag s' sn with 0 => diag s' ops' obs' (S i) | c => Some (i, c, a) end
      | AHard e, OHard e' => if err_eqb e e' then None else Some (i, 6, a)
      | _, _ => Some (i, 5, a)
      end
  | _, _ => Some (i, 7, AHard Unsupported)
  end.
