(* Model of the value codecs of geoh5py (property C08).  Definitions only; proofs in Proofs/CodecProofs.v.

   Python transcribed (after the repairs fixes/C08-*.patch; the pre-repair behaviour is kept under [Old]):
     NumericData.format_values / format_length            geoh5py/data/numeric_data.py
     FloatData / IntegerData / BooleanData .format_type    geoh5py/data/{float,integer,boolean}_data.py
     (ReferencedData inherits IntegerData.format_type)
     H5Writer.write_data_values  (the final else-branch: casts, NaN -> ndv; the str branch)   geoh5py/io/h5_writer.py
     H5Reader.fetch_values       (ndv -> NaN, bytes -> str, 1-element collapse)               geoh5py/io/h5_reader.py
     NumericData.values getter   (fetch_values then format_values again)
     TextData.values setter/getter, FilenameData.values / write_file_name_data / fetch_file_object

   Floats are tokens: the only floats the code treats specially are NaN, the no-data sentinel FLOAT_NDV = 1.17549435e-38,
   the infinities, and -- for integer/boolean targets -- whether a float is integral.  Everything else is an opaque
   identifier (the correspondence uses the IEEE-754 bit pattern of the float64).                                        *)
From GV Require Import Prelude.Base.

Local Open Scope Z_scope.

(* ------------------------------------------------------------------ results *)
Inductive err :=
  TypeErr | ValueErr | KeyErr | AssertErr | OverflowErr | IndexErr | AttributeErr
| UnicodeEncodeErr | UnicodeDecodeErr | NotImplementedErr.

Inductive res (A : Type) := Ok (a : A) | Err (e : err).
Arguments Ok {A} a.
Arguments Err {A} e.

Definition bind {A B} (r : res A) (f : A -> res B) : res B :=
  match r with Ok a => f a | Err e => Err e end.

(* which code: the tree as shipped ([Old]) or with fixes/C08-*.patch applied ([Repaired]) *)
Inductive ver := Old | Repaired.

(* ------------------------------------------------------------------ numbers *)
Definition INT_MIN : Z := -2147483648.
Definition INT_MAX : Z := 2147483647.
Definition INTEGER_NDV : Z := INT_MIN.                 (* shared/__init__.py *)

Definition in_int32 (z : Z) : Prop := INT_MIN <= z <= INT_MAX.
Definition in_int32b (z : Z) : bool := (INT_MIN <=? z) && (z <=? INT_MAX).

(* numpy integer -> int32 cast: two's complement truncation *)
Definition wrap32 (z : Z) : Z := (z + 2 ^ 31) mod 2 ^ 32 - 2 ^ 31.
Definition wrap8 (z : Z) : Z := (z + 2 ^ 7) mod 2 ^ 8 - 2 ^ 7.

Inductive fl :=
| FNaN
| FNdv                  (* exactly FLOAT_NDV as a float64 *)
| FInf (neg : bool)
| FNegZero              (* -0.0 *)
| FInt (z : Z)          (* finite float with integral value z (+0.0 is FInt 0) *)
| FFrac (id : N).       (* any other finite float (non-integral, not the sentinel): opaque *)

Definition is_nan (v : fl) : bool := match v with FNaN => true | _ => false end.
Definition is_ndv (v : fl) : bool := match v with FNdv => true | _ => false end.

(* np.modf(v)[0] != 0 *)
Definition has_frac (v : fl) : bool := match v with FFrac _ | FNdv => true | _ => false end.

(* float -> int32 cast on x86-64: out-of-range and non-finite give the "integer indefinite" value INT_MIN *)
Definition f2i32 (v : fl) : Z :=
  match v with
  | FInt z => if in_int32b z then z else INT_MIN
  | FNegZero => 0
  | FFrac _ | FNdv => 0            (* truncation of |x| < 1 ... only reachable when has_frac was not checked *)
  | FNaN | FInf _ => INT_MIN
  end.

(* min/max comparison against the int32 range (the repair): *)
Definition f_in_range (v : fl) : bool :=
  match v with
  | FInt z => in_int32b z
  | FInf _ | FNaN => false
  | _ => true
  end.

(* ------------------------------------------------------------------ input arrays *)
Inductive idt := I8 | U8 | I16 | U16 | I32 | U32 | I64 | U64.
Inductive fdt := F16 | F32 | F64 | F128.

Inductive arr :=
| ABool (l : list bool)
| AInt (d : idt) (l : list Z)
| AFlt (d : fdt) (l : list fl)          (* tokens of the values widened to float64 (exact for every dtype modelled) *)
| ACplx (l : list (fl * fl))
| AObj.                                  (* object / str / bytes dtype: np.isnan refuses it *)

Inductive cls := CFloat | CInteger | CReferenced | CBoolean.
Inductive assoc := AVertex | AObject.    (* n_values = n_vertices | 1 (and longer arrays are let through) *)

Inductive vals := VF (l : list fl) | VI (l : list Z) | VB (l : list bool).     (* Data._values *)
Inductive raw := RF64 (l : list fl) | RI32 (l : list Z) | RI8 (l : list Z).    (* the 'Data' dataset: dtype + contents *)

Definition b2z (b : bool) : Z := if b then 1 else 0.
Definition b2f (b : bool) : fl := FInt (b2z b).

Definition alen (a : arr) : nat :=
  match a with
  | ABool l => length l | AInt _ l => length l | AFlt _ l => length l | ACplx l => length l | AObj => 0%nat
  end.

(* the value `values[np.isnan(values)] = self.nan_value` writes into a float array of dtype d *)
Definition put_nan (c : cls) (d : fdt) : fl :=
  match c with
  | CFloat => FNaN
  | CInteger | CReferenced =>
      match d with F16 => FInf true (* -2147483648 overflows float16 *) | _ => FInt INTEGER_NDV end
  | CBoolean => FInt 0          (* BooleanData.ndv = 0 *)
  end.

(* step 1 of format_values: values[np.isnan(values)] = self.nan_value *)
Definition replace_nan (c : cls) (a : arr) : res arr :=
  match a with
  | AObj => Err TypeErr                                   (* ufunc 'isnan' not supported *)
  | ABool _ => Ok a                                       (* no NaN; bool(nan) converts *)
  | AInt _ _ => match c with
                | CFloat => Err ValueErr                  (* "cannot convert float NaN to integer", even with an empty mask *)
                | _ => Ok a
                end
  | AFlt d l => Ok (AFlt d (map (fun v => if is_nan v then put_nan c d else v) l))
  | ACplx l => Ok (ACplx (map (fun p => if is_nan (fst p) || is_nan (snd p) then (put_nan c F64, FInt 0) else p) l))
  end.

(* step 2: NumericData.format_length.  The padded vector is np.ones(n, dtype) * nan_value: its dtype is the
   promotion of the input dtype with the scalar (bool/ints * nan -> float64; uint64 * negative int -> float64). *)
Definition pad_arr (c : cls) (k : nat) (a : arr) : arr :=
  match a with
  | ABool l =>
      match c with
      | CFloat => AFlt F64 (map b2f l ++ repeat FNaN k)
      | CInteger | CReferenced => AInt I64 (map b2z l ++ repeat INTEGER_NDV k)
      | CBoolean => AInt I64 (map b2z l ++ repeat 0 k)
      end
  | AInt d l =>
      match c with
      | CFloat => AFlt F64 (map FInt l ++ repeat FNaN k)              (* not reachable: replace_nan refused *)
      | CInteger | CReferenced =>
          match d with
          | U64 => AFlt F64 (map FInt l ++ repeat (FInt INTEGER_NDV) k) (* float64; see note on rounding in notes/C08.md *)
          | _ => AInt I64 (l ++ repeat INTEGER_NDV k)
          end
      | CBoolean => AInt d (l ++ repeat 0 k)
      end
  | AFlt d l =>
      match c with
      | CInteger | CReferenced => AFlt F64 (l ++ repeat (FInt INTEGER_NDV) k)   (* -2147483648 does not fit float16/32: float64 *)
      | _ => AFlt d (l ++ repeat (put_nan c d) k)
      end
  | ACplx l => ACplx (l ++ repeat (put_nan c F64, match c with CFloat => FNaN | _ => FInt 0 end) k)
  | AObj => AObj
  end.

Definition format_length (c : cls) (a : assoc) (n : nat) (x : arr) : res arr :=
  if (alen x <? n)%nat then Ok (pad_arr c (n - alen x) x)
  else if (n <? alen x)%nat then
    match a with AObject => Ok x | AVertex => Err ValueErr end
  else Ok x.

(* step 3: format_type *)
Definition is01_f (v : fl) : bool :=
  match v with FInt 0 | FInt 1 | FNegZero => true | _ => false end.
Definition nz_f (v : fl) : bool := match v with FInt 0 | FNegZero => false | _ => true end.
Definition is0_f (v : fl) : bool := match v with FInt 0 | FNegZero => true | _ => false end.
Definition is01_z (z : Z) : bool := (z =? 0) || (z =? 1).

Definition format_type (w : ver) (c : cls) (x : arr) : res vals :=
  match c with
  | CFloat =>
      match x with
      | ABool _ | AObj => Err TypeErr                       (* not np.number *)
      | AInt _ l => Ok (VF (map FInt l))                    (* not reachable through format_values *)
      | AFlt _ l => Ok (VF l)                               (* astype(float64): exact widening *)
      | ACplx l => match w with
                   | Old => Ok (VF (map fst l))             (* astype(float64) drops the imaginary part *)
                   | Repaired => Err TypeErr
                   end
      end
  | CInteger | CReferenced =>
      match x with
      | AObj | ACplx _ => Err TypeErr                       (* ufunc 'modf' not supported *)
      | ABool l => Ok (VI (map b2z l))
      | AInt _ l =>
          match w with
          | Old => Ok (VI (map wrap32 l))                   (* astype(int32) wraps silently *)
          | Repaired => if forallb in_int32b l then Ok (VI (map wrap32 l)) else Err ValueErr
          end
      | AFlt _ l =>
          if existsb has_frac l then Err TypeErr            (* "Values cannot have decimal points." *)
          else match w with
               | Old => Ok (VI (map f2i32 l))
               | Repaired => if forallb f_in_range l then Ok (VI (map f2i32 l)) else Err ValueErr
               end
      end
  | CBoolean =>
      match x with
      | AObj => Err TypeErr
      | ABool l => Ok (VB l)
      | AInt _ l => if forallb is01_z l then Ok (VB (map (fun z => negb (z =? 0)) l)) else Err ValueErr
      | AFlt _ l => if forallb is01_f l then Ok (VB (map nz_f l)) else Err ValueErr
      | ACplx l => if forallb (fun p => is01_f (fst p) && is0_f (snd p)) l
                   then Ok (VB (map (fun p => nz_f (fst p)) l)) else Err ValueErr
      end
  end.

Definition format_values (w : ver) (c : cls) (a : assoc) (n : nat) (x : arr) : res vals :=
  bind (replace_nan c x) (fun x1 =>
  bind (format_length c a n x1) (fun x2 =>
  format_type w c x2)).

(* ------------------------------------------------------------------ writer / reader *)
(* write_data_values, last branch.  [format_values c] always yields the constructor matching c (lemma
   format_values_kind), so dispatching on the value is dispatching on the entity class. *)
Definition write_values (v : vals) : raw :=
  match v with
  | VB l => RI8 (map (fun b => wrap8 (b2z b)) l)                      (* np.round(..).astype("int8") *)
  | VI l => RI32 (map wrap32 l)                                        (* np.round(..).astype("int32") *)
  | VF l => RF64 (map (fun x => if is_nan x then FNdv else x) l)       (* out_values[np.isnan(out_values)] = entity.ndv *)
  end.

(* fetch_values: np.r_[dataset]; values[0] raises on an empty dataset; floats: values[values == FLOAT_NDV] = nan *)
Definition fetch (r : raw) : res arr :=
  match r with
  | RF64 [] | RI32 [] | RI8 [] => Err IndexErr
  | RF64 l => Ok (AFlt F64 (map (fun x => if is_ndv x then FNaN else x) l))
  | RI32 l => Ok (AInt I32 l)
  | RI8 l => Ok (AInt I8 l)
  end.

(* add_data / values setter: what is held in memory and what is put in the file *)
Definition store (w : ver) (c : cls) (a : assoc) (n : nat) (x : arr) : res (vals * raw) :=
  bind (format_values w c a n x) (fun v => Ok (v, write_values v)).

(* NumericData.values getter on a freshly opened workspace *)
Definition reopen (w : ver) (c : cls) (a : assoc) (n : nat) (r : raw) : res vals :=
  bind (fetch r) (format_values w c a n).

(* the whole observation of one case: live value, raw dataset, value after re-open *)
Inductive outcome :=
| OStoreErr (e : err)
| OReadErr (v : vals) (r : raw) (e : err)
| ODone (v : vals) (r : raw) (v' : vals).

Definition run_num (w : ver) (c : cls) (a : assoc) (n : nat) (x : arr) : outcome :=
  match store w c a n x with
  | Err e => OStoreErr e
  | Ok (v, r) => match reopen w c a n r with
                 | Err e => OReadErr v r e
                 | Ok v' => ODone v r v'
                 end
  end.

(* DataType.validate_data_type: the class add_data picks when no "type" is given *)
Definition infer (x : arr) : res cls :=
  match x with
  | AFlt _ _ => Ok CFloat
  | AInt _ _ => Ok CInteger
  | ABool _ => Ok CBoolean
  | ACplx _ | AObj => Err NotImplementedErr        (* AObj here: object dtype (a str array would become TextData) *)
  end.

Definition run_untyped (w : ver) (a : assoc) (n : nat) (x : arr) : outcome :=
  match infer x with Err e => OStoreErr e | Ok c => run_num w c a n x end.

(* N-d input.  The list carried by [arr] is np.ravel(values) (C order) and [dims] is values.shape: format_values flattens
   (`if values.ndim > 1: values = np.ravel(values)`) BEFORE the length test, so for one or more dimensions the shape plays
   no role and the number of entries compared with n_values is the total size.  A 0-d array is not flattened, the NaN
   substitution works on it, and `len(values)` in format_length raises TypeError. *)
Definition store_nd (w : ver) (c : cls) (a : assoc) (n : nat) (dims : list nat) (x : arr) : res (vals * raw) :=
  match dims with
  | [] => bind (replace_nan c x) (fun _ => Err TypeErr)
  | _ => store w c a n x
  end.

Definition run_num_nd (w : ver) (c : cls) (a : assoc) (n : nat) (dims : list nat) (x : arr) : outcome :=
  match dims with
  | [] => OStoreErr (match replace_nan c x with Err e => e | Ok _ => TypeErr end)
  | _ => run_num w c a n x
  end.

(* what the property expects of an accepted numeric array: the padded input itself *)
Definition padded {A} (l : list A) (n : nat) (fill : A) : list A :=
  if (length l <? n)%nat then l ++ repeat fill (n - length l) else l.

(* ------------------------------------------------------------------ text *)
Definition str := list N.       (* code points *)
Definition bytes := list N.

Definition has_nul (s : list N) : bool := existsb (N.eqb 0) s.

Inductive tin :=
| TStr (s : str)
| TBytes (b : bytes)
| TArrU (l : list str)           (* numpy 'U' array *)
| TArrS (l : list bytes)         (* numpy 'S' array *)
| TOther.                        (* anything else: numeric array, list, ... *)

Inductive tval := TVStr (s : str) | TVArrU (l : list str) | TVArrS (l : list bytes).
Inductive traw := RTVlen (l : list bytes) | RTFixed (l : list bytes).     (* vlen-str dataset | fixed 'S' dataset *)

Fixpoint all_some {A} (l : list (option A)) : option (list A) :=
  match l with
  | [] => Some []
  | None :: _ => None
  | Some a :: r => match all_some r with Some r' => Some (a :: r') | None => None end
  end.

Section Text.
  (* the UTF-8 codec of CPython / h5py; instantiated with utf8_enc / utf8_dec below in the case files *)
  Variable enc : str -> option bytes.
  Variable dec : bytes -> option str.

  (* TextData.values setter *)
  Definition text_set (w : ver) (a : assoc) (n : nat) (x : tin) : res tval :=
    match x with
    | TOther => Err ValueErr
    | TStr s => Ok (TVStr s)
    | TBytes b => match dec b with Some s => Ok (TVStr s) | None => Err UnicodeDecodeErr end
    | TArrU l =>
        match w, a with
        | Repaired, AVertex => if (n <? length l)%nat then Err ValueErr else Ok (TVArrU l)
        | _, _ => Ok (TVArrU l)
        end
    | TArrS l =>
        match w with
        | Old => Ok (TVArrS l)                          (* kept as bytes; never checked *)
        | Repaired =>                                   (* np.char.decode(values, "utf-8") *)
            match all_some (map dec l) with
            | None => Err UnicodeDecodeErr
            | Some [] => Err ValueErr                   (* np.char.decode of an empty array is not a 'U' array: refused by the type test *)
            | Some ss =>
                match a with
                | AVertex => if (n <? length ss)%nat then Err ValueErr else Ok (TVArrU ss)
                | AObject => Ok (TVArrU ss)
                end
            end
        end
    end.

  (* one str into a variable-length string dataset (h5py): UTF-8, no embedded NUL *)
  Definition enc1 (s : str) : res bytes :=
    match enc s with
    | None => Err UnicodeEncodeErr
    | Some b => if has_nul b then Err ValueErr else Ok b
    end.

  Fixpoint enc_all (l : list str) : res (list bytes) :=
    match l with
    | [] => Ok []
    | s :: r => bind (enc1 s) (fun b => bind (enc_all r) (fun br => Ok (b :: br)))
    end.

  (* np.char.encode(values, "utf-8") runs over the whole array before h5py looks at any element *)
  Definition enc_arr (l : list str) : res (list bytes) :=
    match all_some (map enc l) with
    | None => Err UnicodeEncodeErr
    | Some bs => if existsb has_nul bs then Err ValueErr else Ok bs
    end.

  (* write_data_values: `isinstance(values, str)` branch, and the TextData branch of the last else *)
  Definition text_write (v : tval) : res traw :=
    match v with
    | TVStr s => bind (enc1 s) (fun b => Ok (RTVlen [b]))
    | TVArrS [] => Err IndexErr                                   (* pre-repair path only (a byte array is decoded at assignment now) *)
    | TVArrU l => bind (enc_arr l) (fun bs => Ok (RTVlen bs))    (* `len(values) == 0 or not isinstance(values[0], bytes)`: an empty
                                                                     array is written as an empty vlen dataset (/repo f36edcd) *)
    | TVArrS l => Ok (RTFixed l)                                  (* bytes are written as they are *)
    end.

  (* fetch_values (str/bytes branch) + TextData.values getter *)
  Definition text_fetch (r : traw) : res tval :=
    match r with
    | RTVlen [] => Ok (TVArrU [])            (* `len(values) > 0 and ...` fails; the getter turns the empty object array into an empty 'U' array *)
    | RTFixed [] => Ok (TVArrS [])           (* an empty 'S' dataset is returned as it is (not reachable from a write) *)
    | RTVlen l | RTFixed l =>
        match all_some (map dec l) with
        | None => Err UnicodeDecodeErr
        | Some [s] => Ok (TVStr s)                                (* if len(values) == 1: values = values[0] *)
        | Some ss => Ok (TVArrU ss)
        end
    end.

  Inductive toutcome :=
  | TOStoreErr (e : err)
  | TOReadErr (v : tval) (r : traw) (e : err)
  | TODone (v : tval) (r : traw) (v' : tval).

  Definition run_text (w : ver) (a : assoc) (n : nat) (x : tin) : toutcome :=
    match bind (text_set w a n x) (fun v => bind (text_write v) (fun r => Ok (v, r))) with
    | Err e => TOStoreErr e
    | Ok (v, r) => match text_fetch r with
                   | Err e => TOReadErr v r e
                   | Ok v' => TODone v r v'
                   end
    end.
End Text.

(* the strings a text value stands for (a 1-element array reads back as a plain str) *)
Definition items (v : tval) : list str :=
  match v with TVStr s => [s] | TVArrU l => l | TVArrS _ => [] end.

(* ------------------------------------------------------------------ a concrete UTF-8 codec (RFC 3629) *)
Local Open Scope N_scope.

Definition is_scalar (c : N) : bool := (c <? 55296) || ((57343 <? c) && (c <? 1114112)).     (* not a surrogate, < 0x110000 *)

Definition enc_cp (c : N) : option (list N) :=
  if c <? 128 then Some [c]
  else if c <? 2048 then Some [192 + c / 64; 128 + c mod 64]
  else if c <? 65536 then
    if is_scalar c then Some [224 + c / 4096; 128 + (c / 64) mod 64; 128 + c mod 64] else None
  else if c <? 1114112 then Some [240 + c / 262144; 128 + (c / 4096) mod 64; 128 + (c / 64) mod 64; 128 + c mod 64]
  else None.

Fixpoint utf8_enc (s : str) : option bytes :=
  match s with
  | [] => Some []
  | c :: r => match enc_cp c, utf8_enc r with
              | Some b, Some br => Some (b ++ br)
              | _, _ => None
              end
  end.

Definition cont (b : N) : bool := (128 <=? b) && (b <? 192).

(* strict decoder: shortest form only, no surrogates, <= 0x10FFFF *)
Fixpoint utf8_dec (b : bytes) : option str :=
  match b with
  | [] => Some []
  | b1 :: r1 =>
      if b1 <? 128 then option_map (cons b1) (utf8_dec r1)
      else if b1 <? 194 then None
      else if b1 <? 224 then
        match r1 with
        | b2 :: r2 => if cont b2 then option_map (cons ((b1 - 192) * 64 + (b2 - 128))) (utf8_dec r2) else None
        | _ => None
        end
      else if b1 <? 240 then
        match r1 with
        | b2 :: b3 :: r3 =>
            let c := (b1 - 224) * 4096 + (b2 - 128) * 64 + (b3 - 128) in
            if cont b2 && cont b3 && (2048 <=? c) && is_scalar c then option_map (cons c) (utf8_dec r3) else None
        | _ => None
        end
      else if b1 <? 245 then
        match r1 with
        | b2 :: b3 :: b4 :: r4 =>
            let c := (b1 - 240) * 262144 + (b2 - 128) * 4096 + (b3 - 128) * 64 + (b4 - 128) in
            if cont b2 && cont b3 && cont b4 && (65536 <=? c) && (c <? 1114112) then option_map (cons c) (utf8_dec r4) else None
        | _ => None
        end
      else None
  end.

Local Close Scope N_scope.

(* ------------------------------------------------------------------ file blobs (FilenameData) *)
Inductive fin := FBytes (b : bytes) | FNotBytes.

(* FilenameData.values setter (through add_file, which always sets file_name) + write_file_name_data + fetch_file_object.
   name_is_Data: the file is called "Data", the name of the dataset that holds the file name (recorded finding). *)
Definition blob_store (x : fin) : res bytes :=
  match x with
  | FNotBytes => Err ValueErr
  | FBytes [] => Err ValueErr            (* np.void(b"") : size must be positive *)
  | FBytes b => Ok b
  end.
Definition blob_fetch (name_is_Data : bool) (b : bytes) : option bytes := if name_is_Data then None else Some b.

(* ------------------------------------------------------------------ decidable comparison for the case files *)
Definition err_eqb (a b : err) : bool :=
  match a, b with
  | TypeErr, TypeErr | ValueErr, ValueErr | KeyErr, KeyErr | AssertErr, AssertErr | OverflowErr, OverflowErr
  | IndexErr, IndexErr | AttributeErr, AttributeErr | UnicodeEncodeErr, UnicodeEncodeErr
  | UnicodeDecodeErr, UnicodeDecodeErr | NotImplementedErr, NotImplementedErr => true
  | _, _ => false
  end.

Definition fl_eqb (a b : fl) : bool :=
  match a, b with
  | FNaN, FNaN | FNdv, FNdv | FNegZero, FNegZero => true
  | FInf s, FInf t => Bool.eqb s t
  | FInt x, FInt y => Z.eqb x y
  | FFrac x, FFrac y => N.eqb x y
  | _, _ => false
  end.

Definition vals_eqb (a b : vals) : bool :=
  match a, b with
  | VF x, VF y => list_eqb fl_eqb x y
  | VI x, VI y => list_eqb Z.eqb x y
  | VB x, VB y => list_eqb Bool.eqb x y
  | _, _ => false
  end.

Definition raw_eqb (a b : raw) : bool :=
  match a, b with
  | RF64 x, RF64 y => list_eqb fl_eqb x y
  | RI32 x, RI32 y => list_eqb Z.eqb x y
  | RI8 x, RI8 y => list_eqb Z.eqb x y
  | _, _ => false
  end.

Definition outcome_eqb (a b : outcome) : bool :=
  match a, b with
  | OStoreErr e, OStoreErr f => err_eqb e f
  | OReadErr v r e, OReadErr v2 r2 f => vals_eqb v v2 && raw_eqb r r2 && err_eqb e f
  | ODone v r v', ODone v2 r2 v2' => vals_eqb v v2 && raw_eqb r r2 && vals_eqb v' v2'
  | _, _ => false
  end.

Definition lN_eqb : list N -> list N -> bool := list_eqb N.eqb.
Definition llN_eqb : list (list N) -> list (list N) -> bool := list_eqb lN_eqb.

Definition tval_eqb (a b : tval) : bool :=
  match a, b with
  | TVStr x, TVStr y => lN_eqb x y
  | TVArrU x, TVArrU y => llN_eqb x y
  | TVArrS x, TVArrS y => llN_eqb x y
  | _, _ => false
  end.

Definition traw_eqb (a b : traw) : bool :=
  match a, b with
  | RTVlen x, RTVlen y => llN_eqb x y
  | RTFixed x, RTFixed y => llN_eqb x y
  | _, _ => false
  end.

Definition toutcome_eqb (a b : toutcome) : bool :=
  match a, b with
  | TOStoreErr e, TOStoreErr f => err_eqb e f
  | TOReadErr v r e, TOReadErr v2 r2 f => tval_eqb v v2 && traw_eqb r r2 && err_eqb e f
  | TODone v r v', TODone v2 r2 v2' => tval_eqb v v2 && traw_eqb r r2 && tval_eqb v' v2'
  | _, _ => false
  end.

(* entry points of the correspondence files *)
Definition agree_num (w : ver) (c : cls) (a : assoc) (n : nat) (x : arr) (o : outcome) : bool :=
  outcome_eqb (run_num w c a n x) o.
Definition agree_num_nd (w : ver) (c : cls) (a : assoc) (n : nat) (dims : list nat) (x : arr) (o : outcome) : bool :=
  outcome_eqb (run_num_nd w c a n dims x) o.
Definition agree_untyped (w : ver) (a : assoc) (n : nat) (x : arr) (o : outcome) : bool :=
  outcome_eqb (run_untyped w a n x) o.
Definition agree_text (w : ver) (a : assoc) (n : nat) (x : tin) (o : toutcome) : bool :=
  toutcome_eqb (run_text utf8_enc utf8_dec w a n x) o.
Definition agree_blob (name_is_Data : bool) (x : fin) (o : res (option bytes)) : bool :=
  match blob_store x, o with
  | Err e, Err f => err_eqb e f
  | Ok b, Ok ob => option_eqb lN_eqb (blob_fetch name_is_Data b) ob
  | _, _ => false
  end.
