(* Model of the derived geometry of geoh5py grid objects (property C17).
   Definitions only; proofs live in Proofs/GridIndexProofs.v.

   Python transcribed (geoh5py/objects):
     block_model.py  BlockModel.centroids / u_cells / origin / rotation / *_cell_delimiters setters
     grid2d.py       Grid2D.cell_center_u/v, centroids, dip / vertical / rotation / origin / count / size setters
     drape_model.py  DrapeModel.centroids
   Coordinates are rationals ([Q]); the trigonometry (rotation about the vertical axis, dip about the u axis)
   is a Section variable applied point-wise: the theorems are about index layout and the centre formulas.

   The model follows the REPAIRED code (fixes/C17-default-origin.patch, fixes/C17-first-delimiter.patch);
   the pre-repair transcription is kept as [bm_compute_old] and is refuted in Properties/C17.v. *)
From GV Require Import Prelude.Base.
From Coq Require Import QArith Qround.
Close Scope Q_scope.

(* ---------------- results with explicit error branches ---------------- *)
Inductive err := IndexError | ValueError | TypeError | AssertionError.
Inductive res (A : Type) := Ok (a : A) | Err (e : err).
Arguments Ok {A} a.
Arguments Err {A} e.

Definition err_eqb (a b : err) : bool :=
  match a, b with
  | IndexError, IndexError | ValueError, ValueError | TypeError, TypeError | AssertionError, AssertionError => true
  | _, _ => false
  end.

(* ---------------- vectors ---------------- *)
Definition V3 : Type := (Q * Q * Q)%type.
Definition vzero : V3 := (0, 0, 0)%Q.
Definition vadd (a b : V3) : V3 := let '(x, y, z) := a in let '(p, q, r) := b in (x + p, y + q, z + r)%Q.
Definition vsub (a b : V3) : V3 := let '(x, y, z) := a in let '(p, q, r) := b in (x - p, y - q, z - r)%Q.
Definition vscale (c : Q) (a : V3) : V3 := let '(x, y, z) := a in (c * x, c * y, c * z)%Q.
Definition veq (a b : V3) : Prop := let '(x, y, z) := a in let '(p, q, r) := b in (x == p /\ y == q /\ z == r)%Q.
Definition veqb (a b : V3) : bool :=
  let '(x, y, z) := a in let '(p, q, r) := b in Qeq_bool x p && Qeq_bool y q && Qeq_bool z r.

(* ---------------- numpy pieces ---------------- *)
(* d[1:] - d[:-1] *)
Fixpoint diffs (d : list Q) : list Q :=
  match d with
  | [] => []
  | a :: r => match r with [] => [] | b :: _ => (b - a)%Q :: diffs r end
  end.

(* np.cumsum *)
Fixpoint cumsum_from (acc : Q) (l : list Q) : list Q :=
  match l with
  | [] => []
  | x :: r => (acc + x)%Q :: cumsum_from (acc + x)%Q r
  end.
Definition cumsum (l : list Q) : list Q := cumsum_from 0%Q l.

Fixpoint map2 {A B C : Type} (f : A -> B -> C) (l1 : list A) (l2 : list B) : list C :=
  match l1, l2 with
  | x :: r1, y :: r2 => f x y :: map2 f r1 r2
  | _, _ => []
  end.

(* np.cumsum(cells) - cells / 2.0 *)
Definition centres0 (sz : list Q) : list Q := map2 (fun c s => (c - s / 2)%Q) (cumsum sz) sz.

(* pre-repair BlockModel: centres measured from the FIRST delimiter, not from the origin *)
Definition centres_old (d : list Q) : list Q := centres0 (diffs d).
(* repaired: delimiters[0] + cumsum(cells) - cells/2 *)
Definition centres (d : list Q) : list Q :=
  match d with
  | [] => []
  | d0 :: _ => map (fun c => (d0 + c)%Q) (centres0 (diffs d))
  end.

(* u, v, z = np.meshgrid(cu, cv, cz) (default indexing 'xy': arrays of shape (nV, nU, nZ)); np.c_[ravel u, ravel v, ravel z] *)
Definition mesh3 (cu cv cz : list Q) : list V3 :=
  flat_map (fun v => flat_map (fun u => map (fun z => (u, v, z)) cz) cu) cv.

(* u, v = np.meshgrid(cu, cv) (shape (nV, nU)); np.c_[ravel u, ravel v, zeros] *)
Definition mesh2 (cu cv : list Q) : list V3 :=
  flat_map (fun v => map (fun u => (u, v, 0%Q)) cu) cv.

Definition origin_or_zero (o : option V3) : V3 := match o with Some p => p | None => vzero end.

(* origin["x"] = x : an in-place edit of the structured array the `origin` getter hands out *)
Definition set_x (x : Q) (p : V3) : V3 := let '(_, y, z) := p in (x, y, z).

Section Grids.
  (* rotm a p : the point p rotated by [a] degrees about the vertical axis (matrix of BlockModel.centroids /
     xy_rotation_matrix); dipm a p : p rotated by [a] degrees about the u axis (yz_rotation_matrix). *)
  Variable rotm : Q -> V3 -> V3.
  Variable dipm : Q -> V3 -> V3.

  (* ======================= BlockModel ======================= *)
  Record blockmodel := {
    bm_origin : option V3;            (* None: never given (self._origin left at its default) *)
    bm_rotation : Q;
    bm_du : list Q; bm_dv : list Q; bm_dz : list Q;
    bm_cache : option (list V3)       (* self._centroids *)
  }.

  Definition bm_place (b : blockmodel) (o : V3) (p : V3) : V3 := vadd (rotm (bm_rotation b) p) o.

  Definition bm_compute (b : blockmodel) : list V3 :=
    map (bm_place b (origin_or_zero (bm_origin b)))
        (mesh3 (centres (bm_du b)) (centres (bm_dv b)) (centres (bm_dz b))).

  (* the code before the two repairs: np.zeros(3) indexed by field name raises IndexError; centres ignore d[0] *)
  Definition bm_compute_old (b : blockmodel) : res (list V3) :=
    match bm_origin b with
    | None => Err IndexError
    | Some o => Ok (map (bm_place b o) (mesh3 (centres_old (bm_du b)) (centres_old (bm_dv b)) (centres_old (bm_dz b))))
    end.

  Definition bm_n_cells (b : blockmodel) : nat :=
    (length (bm_du b) - 1) * (length (bm_dv b) - 1) * (length (bm_dz b) - 1).

  Inductive bm_op :=
  | BmRead
  | BmOrigin (o : V3) | BmRotation (a : Q)
  | BmDU (d : list Q) | BmDV (d : list Q) | BmDZ (d : list Q)
  (* bm.origin["x"] = x : not a setter call.  refused = the assignment raised (read-only array, after
     fixes/C17-origin-inplace-readonly.patch) and nothing changes; otherwise the stored origin changes and the
     centroid cache is NOT reset (open finding origin-inplace-stale) *)
  | BmOriginX (refused : bool) (x : Q).

  Definition bm_with_cache (b : blockmodel) (c : option (list V3)) : blockmodel :=
    {| bm_origin := bm_origin b; bm_rotation := bm_rotation b; bm_du := bm_du b; bm_dv := bm_dv b; bm_dz := bm_dz b;
       bm_cache := c |}.

  (* one API call: the new state and, for a read of .centroids, what it returned *)
  Definition bm_step (b : blockmodel) (op : bm_op) : blockmodel * option (list V3) :=
    match op with
    | BmRead =>
        match bm_cache b with
        | Some c => (b, Some c)
        | None => let c := bm_compute b in (bm_with_cache b (Some c), Some c)
        end
    | BmOrigin o => ({| bm_origin := Some o; bm_rotation := bm_rotation b; bm_du := bm_du b; bm_dv := bm_dv b;
                        bm_dz := bm_dz b; bm_cache := None |}, None)
    | BmRotation a => ({| bm_origin := bm_origin b; bm_rotation := a; bm_du := bm_du b; bm_dv := bm_dv b;
                          bm_dz := bm_dz b; bm_cache := None |}, None)
    | BmDU d => ({| bm_origin := bm_origin b; bm_rotation := bm_rotation b; bm_du := d; bm_dv := bm_dv b;
                    bm_dz := bm_dz b; bm_cache := None |}, None)
    | BmDV d => ({| bm_origin := bm_origin b; bm_rotation := bm_rotation b; bm_du := bm_du b; bm_dv := d;
                    bm_dz := bm_dz b; bm_cache := None |}, None)
    | BmDZ d => ({| bm_origin := bm_origin b; bm_rotation := bm_rotation b; bm_du := bm_du b; bm_dv := bm_dv b;
                    bm_dz := d; bm_cache := None |}, None)
    | BmOriginX true _ => (b, None)
    | BmOriginX false x =>
        ({| bm_origin := Some (set_x x (origin_or_zero (bm_origin b))); bm_rotation := bm_rotation b; bm_du := bm_du b;
            bm_dv := bm_dv b; bm_dz := bm_dz b; bm_cache := bm_cache b |}, None)
    end.

  Fixpoint bm_run (b : blockmodel) (ops : list bm_op) : blockmodel * list (list V3) :=
    match ops with
    | [] => (b, [])
    | op :: r =>
        let '(b1, out) := bm_step b op in
        let '(b2, outs) := bm_run b1 r in
        (b2, match out with Some c => c :: outs | None => outs end)
    end.

  (* ======================= Grid2D ======================= *)
  Record grid2d := {
    g_origin : V3;                    (* Grid2D's default origin is already a structured zero *)
    g_nu : nat; g_nv : nat; g_su : Q; g_sv : Q;
    g_rotation : Q; g_dip : Q; g_vertical : bool;
    g_cache : option (list V3)
  }.

  (* np.cumsum(np.ones(n) * size) - size / 2.0 *)
  Definition g_centres (n : nat) (s : Q) : list Q := map (fun c => (c - s / 2)%Q) (cumsum (repeat s n)).

  (* the `dip` getter: 90 when the grid is flagged vertical *)
  Definition g_eff_dip (g : grid2d) : Q := if g_vertical g then 90%Q else g_dip g.

  Definition g_place (g : grid2d) (p : V3) : V3 := vadd (rotm (g_rotation g) (dipm (g_eff_dip g) p)) (g_origin g).

  Definition g_compute (g : grid2d) : list V3 :=
    map (g_place g) (mesh2 (g_centres (g_nu g) (g_su g)) (g_centres (g_nv g) (g_sv g))).

  Definition g_n_cells (g : grid2d) : nat := g_nu g * g_nv g.

  Inductive g_op :=
  | GRead
  | GOrigin (o : V3) | GRotation (a : Q) | GDip (a : Q) | GVertical (v : bool)
  | GNu (n : nat) | GNv (n : nat) | GSu (s : Q) | GSv (s : Q)
  | GOriginX (refused : bool) (x : Q).       (* g.origin["x"] = x, see BmOriginX *)

  Definition g_mk o nu nv su sv r d v c : grid2d :=
    {| g_origin := o; g_nu := nu; g_nv := nv; g_su := su; g_sv := sv; g_rotation := r; g_dip := d; g_vertical := v;
       g_cache := c |}.

  Definition g_step (g : grid2d) (op : g_op) : grid2d * option (list V3) :=
    let '(o, nu, nv, su, sv, r, d, v) :=
      (g_origin g, g_nu g, g_nv g, g_su g, g_sv g, g_rotation g, g_dip g, g_vertical g) in
    match op with
    | GRead =>
        match g_cache g with
        | Some c => (g, Some c)
        | None => let c := g_compute g in (g_mk o nu nv su sv r d v (Some c), Some c)
        end
    | GOrigin o' => (g_mk o' nu nv su sv r d v None, None)
    | GRotation a => (g_mk o nu nv su sv a d v None, None)
    (* dip setter: self._dip = value; if value == 90: self._vertical = True; then update_attribute(...) reads every
       attribute through its getter, and the `dip` getter snaps _dip back to 90 while the grid is flagged vertical *)
    | GDip a => let v' := if Qeq_bool a 90 then true else v in
                (g_mk o nu nv su sv r (if v' then 90%Q else a) v' None, None)
    (* vertical setter: self._vertical = value; if self.dip != 90 and value: self._dip = 90 *)
    | GVertical b => (g_mk o nu nv su sv r (if b then 90%Q else d) b None, None)
    | GNu n => (g_mk o n nv su sv r d v None, None)
    | GNv n => (g_mk o nu n su sv r d v None, None)
    | GSu s => (g_mk o nu nv s sv r d v None, None)
    | GSv s => (g_mk o nu nv su s r d v None, None)
    | GOriginX true _ => (g, None)
    | GOriginX false x => (g_mk (set_x x o) nu nv su sv r d v (g_cache g), None)
    end.

  Fixpoint g_run (g : grid2d) (ops : list g_op) : grid2d * list (list V3) :=
    match ops with
    | [] => (g, [])
    | op :: r =>
        let '(g1, out) := g_step g op in
        let '(g2, outs) := g_run g1 r in
        (g2, match out with Some c => c :: outs | None => outs end)
    end.
End Grids.

(* ======================= DrapeModel ======================= *)
Record prism := { px : Q; py : Q; ptop : Q; pfirst : nat; pcount : nat }.

(* self.layers[first : first + count - 1, 2]  (python slice semantics, including the count = 0 corner) *)
Definition drape_slice (bottoms : list Q) (first count : nat) : list Q :=
  match count with
  | O => match first with O => removelast bottoms | S _ => [] end
  | S c => slice bottoms first c
  end.

Definition drape_tops (prisms : list prism) (bottoms : list Q) : list Q :=
  flat_map (fun p => ptop p :: drape_slice bottoms (pfirst p) (pcount p)) prisms.

Definition drape_xy (prisms : list prism) : list (Q * Q) :=
  flat_map (fun p => repeat (px p, py p) (pcount p)) prisms.

(* numpy refuses the element-wise sum / column assignment when the three lengths differ
   (length-1 broadcasting is excluded by the side condition of the correspondence cases) *)
Definition drape_centroids (prisms : list prism) (bottoms : list Q) : res (list V3) :=
  let xy := drape_xy prisms in
  let tops := drape_tops prisms bottoms in
  if Nat.eqb (length tops) (length bottoms) && Nat.eqb (length xy) (length bottoms)
  then Ok (map2 (fun '(x, y) z => (x, y, z)) xy (map2 (fun t b => ((t + b) / 2)%Q) tops bottoms))
  else Err ValueError.

(* well-formed drape model: prism p owns the layers [first, first+count), blocks in order, no gap *)
Fixpoint drape_wf (start : nat) (prisms : list prism) : Prop :=
  match prisms with
  | [] => True
  | p :: r => pfirst p = start /\ 1 <= pcount p /\ drape_wf (start + pcount p) r
  end.
Definition drape_total (prisms : list prism) : nat := fold_right (fun p n => pcount p + n) 0 prisms.

(* ======================= exact trigonometry for the correspondence ======================= *)
(* angles that are multiples of 90 degrees: (cos, sin) exactly; anything else is outside the exact set (identity,
   never used: the case generator only emits multiples of 90) *)
Definition quarter (a : Q) : option Z :=
  let n := Qfloor a in
  if Qeq_bool a (inject_Z n) && Z.eqb (n mod 90) 0 then Some ((n / 90) mod 4)%Z else None.

Definition cos_sin (a : Q) : Q * Q :=
  match quarter a with
  | Some 0%Z => (1, 0)%Q
  | Some 1%Z => (0, 1)%Q
  | Some 2%Z => (-1, 0)%Q
  | Some 3%Z => (0, -1)%Q
  | _ => (1, 0)%Q
  end.

(* the matrices of the code, for a given (cos, sin) pair:
   [[cos, -sin, 0], [sin, cos, 0], [0, 0, 1]] @ p   (BlockModel / Octree centroids, xy_rotation_matrix) *)
Definition rotz_cs (c s : Q) (p : V3) : V3 := let '(x, y, z) := p in (c * x - s * y, s * x + c * y, z)%Q.
(* [[1, 0, 0], [0, cos, -sin], [0, sin, cos]] @ p   (yz_rotation_matrix) *)
Definition rotx_cs (c s : Q) (p : V3) : V3 := let '(x, y, z) := p in (x, c * y - s * z, s * y + c * z)%Q.

(* rotation / dip maps built from ANY pair of functions giving the cosine and sine of an angle in degrees *)
Definition rotm_of (cosd sind : Q -> Q) (a : Q) (p : V3) : V3 := rotz_cs (cosd a) (sind a) p.
Definition dipm_of (cosd sind : Q -> Q) (a : Q) (p : V3) : V3 := rotx_cs (cosd a) (sind a) p.

Definition rot_exact (a : Q) (p : V3) : V3 := let '(c, s) := cos_sin a in rotz_cs c s p.
Definition dip_exact (a : Q) (p : V3) : V3 := let '(c, s) := cos_sin a in rotx_cs c s p.

(* ======================= executable comparison ======================= *)
Definition vlist_eqb : list V3 -> list V3 -> bool := list_eqb veqb.
Definition outs_eqb : list (list V3) -> list (list V3) -> bool := list_eqb vlist_eqb.

Definition res_eqb {A} (eqb : A -> A -> bool) (a b : res A) : bool :=
  match a, b with
  | Ok x, Ok y => eqb x y
  | Err e, Err f => err_eqb e f
  | _, _ => false
  end.

Definition bm_agree (b : blockmodel) (ops : list bm_op) (obs : list (list V3)) : bool :=
  outs_eqb (snd (bm_run rot_exact b ops)) obs.
Definition g_agree (g : grid2d) (ops : list g_op) (obs : list (list V3)) : bool :=
  outs_eqb (snd (g_run rot_exact dip_exact g ops)) obs.
Definition drape_agree (prisms : list prism) (bottoms : list Q) (obs : res (list V3)) : bool :=
  res_eqb vlist_eqb (drape_centroids prisms bottoms) obs.
