(* Executable comparison of the workspace model with observations of the implementation (correspondence files). *)
From GV Require Import Prelude.Base Model.WsX.

Definition outcome_eqb (a b : outcome) : bool :=
  match a, b with Done, Done | Refused, Refused | Raised, Raised => true | _, _ => false end.

Definition memrow : Type := (key * attrs * key * list key)%type.
Definition memrow_eqb (a b : memrow) : bool :=
  let '(k1, a1, p1, c1) := a in let '(k2, a2, p2, c2) := b in
  key_eqb k1 k2 && attrs_eqb a1 a2 && key_eqb p1 p2 && list_eqb key_eqb c1 c2.

Definition same_set {A} (eqb : A -> A -> bool) (l1 l2 : list A) : bool :=
  Nat.eqb (length l1) (length l2) && forallb (fun x => existsb (eqb x) l2) l1 && forallb (fun x => existsb (eqb x) l1) l2.

Definition linkobs : Type := (key * option bool)%type.
Definition linkobs_eqb (a b : linkobs) : bool := key_eqb (fst a) (fst b) && option_eqb Bool.eqb (snd a) (snd b).
Definition filerow : Type := (key * attrs * list linkobs)%type.
(* the file lists property-group blocks by name: compared as a set *)
Definition attrs_eqb_file (a b : attrs) : bool :=
  N.eqb (aname a) (aname b) && Bool.eqb (adel a) (adel b) && N.eqb (aarr a) (aarr b)
  && same_set pgroup_eqb (apgs a) (apgs b).
Definition filerow_eqb (a b : filerow) : bool :=
  let '(k1, a1, l1) := a in let '(k2, a2, l2) := b in
  key_eqb k1 k2 && attrs_eqb_file a1 a2 && same_set linkobs_eqb l1 l2.
Definition filedump : Type := (list filerow * option linkobs)%type.
Definition filedump_eqb (a b : filedump) : bool :=
  same_set filerow_eqb (fst a) (fst b) && option_eqb linkobs_eqb (snd a) (snd b).

Definition obs : Type := (outcome * list memrow * filedump)%type.

Definition observe (w : ws) : list memrow * filedump := (dump_mem rootkey (wmem w), dump_file (wfile w)).

Fixpoint check_from (w : ws) (ops : list op) (exp : list obs) : bool :=
  match ops, exp with
  | [], [] => true
  | o :: ops', (oc, m, f) :: exp' =>
      let '(w', oc') := step w o in
      outcome_eqb oc oc' && list_eqb memrow_eqb (dump_mem rootkey (wmem w')) m && filedump_eqb (dump_file (wfile w')) f
      && check_from w' ops' exp'
  | _, _ => false
  end.

Definition check_history (ops : list op) (exp : list obs) : bool := check_from init ops exp.

(* index of the first step that disagrees (for replay files) *)
Fixpoint first_bad (w : ws) (ops : list op) (exp : list obs) (i : N) : option N :=
  match ops, exp with
  | [], [] => None
  | o :: ops', (oc, m, f) :: exp' =>
      let '(w', oc') := step w o in
      if outcome_eqb oc oc' && list_eqb memrow_eqb (dump_mem rootkey (wmem w')) m && filedump_eqb (dump_file (wfile w')) f
      then first_bad w' ops' exp' (N.succ i) else Some i
  | _, _ => Some i
  end.

Fixpoint trace (w : ws) (ops : list op) : list (outcome * (list memrow * filedump)) :=
  match ops with
  | [] => []
  | o :: r => let '(w', oc) := step w o in (oc, observe w') :: trace w' r
  end.

(* ---------------- two workspaces ---------------- *)
Definition wobs : Type := (outcome * (list memrow * filedump) * (list memrow * filedump))%type.

Definition side_ok (w : ws) (o : list memrow * filedump) : bool :=
  list_eqb memrow_eqb (dump_mem rootkey (wmem w)) (fst o) && filedump_eqb (dump_file (wfile w)) (snd o).

Fixpoint wcheck_from (W : world) (ops : list wop) (exp : list wobs) : bool :=
  match ops, exp with
  | [], [] => true
  | o :: ops', (oc, oa, ob) :: exp' =>
      let '(W', oc') := wstep W o in
      outcome_eqb oc oc' && side_ok (wa W') oa && side_ok (wb W') ob && wcheck_from W' ops' exp'
  | _, _ => false
  end.
Definition check_world (ops : list wop) (exp : list wobs) : bool := wcheck_from winit ops exp.

Fixpoint wfirst_bad (W : world) (ops : list wop) (exp : list wobs) (i : N) : option N :=
  match ops, exp with
  | [], [] => None
  | o :: ops', (oc, oa, ob) :: exp' =>
      let '(W', oc') := wstep W o in
      if outcome_eqb oc oc' && side_ok (wa W') oa && side_ok (wb W') ob then wfirst_bad W' ops' exp' (N.succ i) else Some i
  | _, _ => Some i
  end.
