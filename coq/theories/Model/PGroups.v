(* Model of the property-group bookkeeping of one object (property C05).  Definitions only.

   Python transcribed (geoh5py/objects/object_base.py, geoh5py/groups/property_group.py):

     ObjectBase.remove_data_from_groups(data):
         if not self._property_groups: return
         for property_group in self._property_groups:          # iterates the list object itself
             property_group.remove_properties(data)

     PropertyGroup.remove_properties(data):
         if elem in self._properties: self._properties.remove(elem)
         if len(self._properties) == 0:
             self.parent.workspace.remove_entity(self)           # -> ... -> ObjectBase.remove_property_group(self):
             return                                              #        self._property_groups.remove(self)   (same list, in place)
         self.parent.workspace.add_or_update_property_group(self)

   `for x in lst` over a list that the body mutates is CPython's list iterator: it keeps an index i; each step yields
   lst[i] of the *current* list if i < len(lst) and increments i, else stops.  That is made explicit here as index
   stepping (scrub_loop).  An object's `_property_groups` is a list of (group id, the group's `_properties`).      *)
From GV Require Import Prelude.Base.

Notation grp := (nat * list nat)%type (only parsing).

Definition memb (x : nat) (l : list nat) : bool := existsb (Nat.eqb x) l.

(* list.remove(x): delete the first occurrence (no-op when absent; the callers test membership first) *)
Fixpoint remove_first (x : nat) (l : list nat) : list nat :=
  match l with
  | [] => []
  | y :: r => if Nat.eqb x y then r else y :: remove_first x r
  end.

(* _property_groups.remove(pg): delete the first entry whose group is g *)
Fixpoint remove_grp (g : nat) (gs : list grp) : list grp :=
  match gs with
  | [] => []
  | (h, l) :: r => if Nat.eqb g h then r else (h, l) :: remove_grp g r
  end.

Fixpoint set_nth {A} (i : nat) (a : A) (l : list A) : list A :=
  match l, i with
  | [], _ => []
  | _ :: r, 0 => a :: r
  | x :: r, S j => x :: set_nth j a r
  end.

Definition is_nil {A} (l : list A) : bool := match l with [] => true | _ => false end.

(* one visit of the loop body: group at index i loses d; when it becomes empty it is removed from the list *)
Definition scrub_visit (d : nat) (gs : list grp) (i : nat) (g : nat) (l : list nat) : list grp :=
  let l' := remove_first d l in
  let gs1 := set_nth i (g, l') gs in
  if is_nil l' then remove_grp g gs1 else gs1.

(* `for property_group in self._property_groups:` as index stepping; k bounds the number of iterations
   (Proofs/PGroupsProofs.v: k = length gs is never exhausted: scrub_loop_fuel) *)
Fixpoint scrub_loop (k : nat) (d : nat) (gs : list grp) (i : nat) : list grp :=
  match k with
  | 0 => gs
  | S k' =>
      match nth_error gs i with
      | None => gs
      | Some (g, l) => scrub_loop k' d (scrub_visit d gs i g l) (S i)
      end
  end.

Definition scrub (d : nat) (gs : list grp) : list grp := scrub_loop (length gs) d gs 0.

(* what the property asks for: d is deleted from every group, emptied groups disappear *)
Fixpoint scrub_spec (d : nat) (gs : list grp) : list grp :=
  match gs with
  | [] => []
  | (g, l) :: r =>
      let l' := remove_first d l in
      if is_nil l' then scrub_spec d r else (g, l') :: scrub_spec d r
  end.

(* the repaired code (fixes/C05-pg-iterate-over-copy.patch): `for property_group in list(self._property_groups):`
   iterates a snapshot: every group of the snapshot is visited once (a group only ever removes itself from the list) *)
Fixpoint index_of (g : nat) (gs : list grp) : option nat :=
  match gs with
  | [] => None
  | (h, _) :: r => if Nat.eqb g h then Some 0 else option_map S (index_of g r)
  end.
Definition visit_id (d : nat) (gs : list grp) (g : nat) : list grp :=
  match index_of g gs with
  | None => gs
  | Some i => match nth_error gs i with Some (_, l) => scrub_visit d gs i g l | None => gs end
  end.
Definition scrub_snap (d : nat) (gs : list grp) : list grp := fold_left (visit_id d) (map fst gs) gs.

(* does any group still list d ? *)
Definition dangling (d : nat) (gs : list grp) : bool := existsb (fun p => memb d (snd p)) gs.

(* exact side condition under which the loop visits every group that lists d:
   a group that will be emptied ( = [d] ) is never immediately followed by a group that lists d *)
Fixpoint no_skip (d : nat) (gs : list grp) : bool :=
  match gs with
  | [] => true
  | (_, l) :: r =>
      (match r with
       | (_, l2) :: _ => negb (is_nil (remove_first d l) && memb d l && memb d l2)
       | [] => true
       end) && no_skip d r
  end.

(* groups are distinct objects, a group's _properties has no repeats (add_properties tests `uid not in properties`),
   an existing group is never empty (it is deleted when it becomes so; created with at least one member) *)
Definition grp_ok (gs : list grp) : Prop :=
  NoDup (map fst gs) /\ Forall (fun p => NoDup (snd p) /\ snd p <> []) gs.
