(* Model of the extent-selection code of geoh5py (property C13).  Definitions only; proofs in Proofs/ExtentProofs.v.

   Python transcribed (file:function -> definition here):
     shared/utils.py            mask_by_extent                      -> in_box, mask_by_extent
                                box_intersect                        -> valid_ext, box_intersect
     objects/points.py          Points.extent                        -> obj_extent
                                Points.mask_by_extent                -> points_mask
     objects/cell_object.py     CellObject.mask_by_extent            -> cell_obj_mask (orphan vertices dropped, None when empty)
     shared/entity_container.py EntityContainer.copy_from_extent     -> copy_from_extent (= Geometry.masked_copy with the mask)
     data/data.py               Data.mask_by_extent (VERTEX / CELL of an object without centroids) -> data_mask
     objects/grid2d.py          Grid2D.copy_from_extent, index part  -> grid_select (u_ind / v_ind = any over columns / rows,
                                                                         kron, argmax, counts; inverse = False branch),
                                                                         grid_copy_values (values picked, then blanked by
                                                                         Data.mask_by_extent on the new grid's centroids)

   For rotated / dipped grids the selection matrix (which centres lie in the box) is an INPUT of grid_select, recomputed by
   the driver from the observed centroids; for unrotated, undipped grids it is computed here (grid_sel / grid_centres2).
   Coordinates are integers (Z): the driver uses lattice coordinates for which the float comparisons are exact.
   An extent is the list of its columns [(lo_x, hi_x); (lo_y, hi_y)] or with a third (lo_z, hi_z): `zip` over the
   columns of the (2, N) array and the 3 coordinate columns stops at the shorter, so a 2-D extent ignores z.          *)
From GV Require Import Prelude.Base Model.Geometry.

Definition extent : Type := list (Z * Z).

Definition coords (p : pt) : list Z := let '(x, y, z) := p in [x; y; z].

(* for loc, lim in zip(locations.T, extent.T): indices &= (lim[0] <= loc) & (loc <= lim[1]) *)
Fixpoint in_box (cs : list Z) (e : extent) : bool :=
  match cs, e with
  | c :: cs', (lo, hi) :: e' => (lo <=? c)%Z && (c <=? hi)%Z && in_box cs' e'
  | _, _ => true
  end.

(* does the point qualify: inside the closed box, or outside it when inverse *)
Definition qualifies (e : extent) (inv : bool) (p : pt) : bool := xorb inv (in_box (coords p) e).

Definition mask_by_extent (ps : list pt) (e : extent) (inv : bool) : list bool := map (qualifies e inv) ps.

(* box_intersect: both extents must have min <= max on every axis (ValueError otherwise) *)
Definition valid_ext (e : extent) : bool := forallb (fun lh => (fst lh <=? snd lh)%Z) e.

Fixpoint boxes_meet (a b : extent) : bool :=
  match a, b with
  | (la, ha) :: a', (lb, hb) :: b' => negb (Z.min ha hb <? Z.max la lb)%Z && boxes_meet a' b'
  | _, _ => true
  end.

Definition box_intersect (a b : extent) : res bool :=
  if valid_ext a && valid_ext b then Ok (boxes_meet a b) else Err ValueError.

(* Points.extent: column-wise min and max of the vertices (an empty vertex array makes numpy's min raise ValueError) *)
Definition zmin_list (x : Z) (l : list Z) : Z := fold_left Z.min l x.
Definition zmax_list (x : Z) (l : list Z) : Z := fold_left Z.max l x.

Definition obj_extent (ps : list pt) : res extent :=
  match ps with
  | [] => Err ValueError
  | (x, y, z) :: r =>
      let xs := map (fun p => fst (fst p)) r in
      let ys := map (fun p => snd (fst p)) r in
      let zs := map (fun p => snd p) r in
      Ok [(zmin_list x xs, zmax_list x xs); (zmin_list y ys, zmax_list y ys); (zmin_list z zs, zmax_list z zs)]
  end.

(* the shape shared by Points.mask_by_extent (vertices), GridObject.mask_by_extent (centroids of a block model, octree,
   2-D grid, ...) and Drillhole.mask_by_extent (the collar alone; its extent is the collar twice): None unless the box meets
   the bounding box of the locations, else utils.mask_by_extent of the locations *)
Definition located_mask (locs : list pt) (e : extent) (inv : bool) : res (option (list bool)) :=
  match obj_extent locs with
  | Err er => Err er
  | Ok bb =>
      match box_intersect bb e with
      | Err er => Err er
      | Ok false => Ok None
      | Ok true => Ok (Some (mask_by_extent locs e inv))
      end
  end.

(* Points.mask_by_extent *)
Definition points_mask (o : obj) (e : extent) (inv : bool) : res (option (list bool)) := located_mask (verts o) e inv.
(* GridObject.mask_by_extent on the object's centroids (given: C17 proves the centroid formulas) *)
Definition grid_object_mask (centroids : list pt) (e : extent) (inv : bool) := located_mask centroids e inv.
(* Drillhole.mask_by_extent: the collar only *)
Definition drillhole_mask (collar : pt) (e : extent) (inv : bool) := located_mask [collar] e inv.

(* orphan_mask = zeros; orphan_mask[cells[cell_mask].flatten()] = True *)
Definition used_by (n : nat) (cs : list (list nat)) : list bool := map (fun i => memb i (concat cs)) (seq 0 n).

Fixpoint and_masks (a b : list bool) : list bool :=
  match a, b with
  | x :: a', y :: b' => (x && y) :: and_masks a' b'
  | _, _ => []
  end.

(* CellObject.mask_by_extent *)
Definition cell_obj_mask (o : obj) (e : extent) (inv : bool) : res (option (list bool)) :=
  match obj_extent (verts o) with
  | Err er => Err er
  | Ok bb =>
      match box_intersect bb e with
      | Err er => Err er
      | Ok false => Ok None
      | Ok true =>
          let vm := mask_by_extent (verts o) e inv in
          match cells_kept vm (cells o) with
          | None => Err IndexError
          | Some cmask =>
              let vm' := and_masks vm (used_by (length vm) (select cmask (cells o))) in
              if existsb (fun b => b) vm' then Ok (Some vm') else Ok None
          end
      end
  end.

Definition obj_mask (o : obj) (e : extent) (inv : bool) : res (option (list bool)) :=
  match ok o with OPoints => points_mask o e inv | _ => cell_obj_mask o e inv end.

(* EntityContainer.copy_from_extent: None when the mask is None, else copy(mask=indices) *)
Inductive copy_result := CNone | CCopy (o : obj) | CErr (e : err).

Definition copy_from_extent (o : obj) (e : extent) (inv : bool) : copy_result :=
  match obj_mask o e inv with
  | Err er => CErr er
  | Ok None => CNone
  | Ok (Some m) => match masked_copy repaired o (Some m) None with   (* Data.copy flag: irrelevant without text children *)
                   | Done o' => CCopy o'
                   | Failed er _ => CErr er
                   end
  end.

(* GridObject.copy(mask = m) (block model, octree, ...: what EntityContainer.copy_from_extent calls with the centroid mask):
   a data child whose array has the mask's shape is copied with the entries outside the mask blanked, any other child as
   it is; the blank array is np.ones_like(values) * nan (a float array; nan becomes the kind's no-data value in the values
   setter; undefined for str arrays: TypeError) or, repaired, np.full_like(values, child.nan_value) ([fill_text]) *)
Definition grid_child_copy (fill_text : bool) (k : dkind) (m : list bool) (v : vals) : res vals :=
  if negb (Nat.eqb (length m) (length v)) then Ok v
  else if dkind_eqb k KText && negb fill_text then Err TypeError
  else Ok (fill_masked (ndv k) m v).

Fixpoint grid_children_copy (fill_text : bool) (m : list bool) (ks : list (dkind * vals)) : res (list vals) :=
  match ks with
  | [] => Ok []
  | (k, v) :: r =>
      match grid_child_copy fill_text k m v with
      | Err e => Err e                                   (* the first child that cannot be copied aborts the copy *)
      | Ok v' => match grid_children_copy fill_text m r with Ok r' => Ok (v' :: r') | Err e => Err e end
      end
  end.

(* copy_from_extent of a block model / octree: None when no mask is returned, else the children's values of the copy *)
Definition grid_object_copy_from_extent (fill_text : bool) (centroids : list pt) (e : extent) (inv : bool)
           (ks : list (dkind * vals)) : res (option (list vals)) :=
  match grid_object_mask centroids e inv with
  | Err er => Err er
  | Ok None => Ok None
  | Ok (Some m) => match grid_children_copy fill_text m ks with Ok l => Ok (Some l) | Err er => Err er end
  end.

Definition grid_copy_agrees (fill_text : bool) (centroids : list pt) (e : extent) (inv : bool) (ks : list (dkind * vals))
           (obs : res (option (list vals))) : bool :=
  match grid_object_copy_from_extent fill_text centroids e inv ks, obs with
  | Ok None, Ok None => true
  | Ok (Some a), Ok (Some b) => list_eqb vals_eqb a b
  | Err x, Err y => err_eqb x y
  | _, _ => false
  end.

(* Group.copy_from_extent: every child is asked for its own copy_from_extent into the new group; the group copy is removed
   again (None) when no child produced anything.  [copies] = the children's own results, None = nothing selected *)
Definition group_copy_from_extent {A} (copies : list (option A)) : option (list A) :=
  match flat_map (fun c => match c with Some x => [x] | None => [] end) copies with
  | [] => None
  | l => Some l
  end.

Definition child_copy (o : obj) (e : extent) (inv : bool) : option obj :=
  match copy_from_extent o e inv with CCopy c => Some c | _ => None end.

(* the same with failures: a child whose own copy_from_extent raises makes the group's copy_from_extent raise; the group
   copy made so far is removed again ([cleanup], the repaired code) or stays behind in the workspace ([stray]) *)
Definition child_copy_res (o : obj) (e : extent) (inv : bool) : res (option obj) :=
  match copy_from_extent o e inv with CCopy c => Ok (Some c) | CNone => Ok None | CErr er => Err er end.

Inductive group_result (A : Type) := GNone | GCopy (l : list A) | GFail (e : err) (stray : bool).
Arguments GNone {A}.
Arguments GCopy {A} l.
Arguments GFail {A} e stray.

Fixpoint first_err {A} (cs : list (res A)) : option err :=
  match cs with [] => None | Err e :: _ => Some e | Ok _ :: r => first_err r end.
Definition ok_part {A} (c : res (option A)) : option A := match c with Ok x => x | Err _ => None end.

Definition group_copy_run {A} (cleanup : bool) (cs : list (res (option A))) : group_result A :=
  match first_err cs with
  | Some e => GFail e (negb cleanup)
  | None => match group_copy_from_extent (map ok_part cs) with None => GNone | Some l => GCopy l end
  end.

(* a sub-group seen as a child of its parent group *)
Definition group_as_child {A} (r : group_result A) : res (option unit) :=
  match r with GNone => Ok None | GCopy _ => Ok (Some tt) | GFail e _ => Err e end.
Definition res_unit {A} (c : res (option A)) : res (option unit) :=
  match c with Ok (Some _) => Ok (Some tt) | Ok None => Ok None | Err e => Err e end.

(* Drillhole.copy_from_extent.  Pinned: EntityContainer.copy_from_extent hands the one-entry collar mask to Points.copy,
   which refuses it unless the hole has exactly one vertex, and ignores it (copies the hole) when the hole has no vertices,
   even if the entry is False.  Repaired ([fixed]): the hole is copied as a whole iff its collar is selected.
   [nverts] = None for a hole without depth data *)
Definition drillhole_copy_from_extent (fixed : bool) (collar : pt) (nverts : option nat) (e : extent) (inv : bool) : res (option bool) :=
  match drillhole_mask collar e inv with
  | Err er => Err er
  | Ok None => Ok None
  | Ok (Some m) =>
      let sel := match m with [b] => b | _ => false end in
      if fixed then (if sel then Ok (Some true) else Ok None)
      else match nverts with
           | None => Ok (Some true)                               (* no vertices: the mask is ignored *)
           | Some n => if Nat.eqb n 1 then Ok (Some sel)           (* one vertex: kept or dropped by the mask *)
                       else Err ValueError                        (* "Mask must be an array of shape (n_vertices,)" *)
           end
  end.

(* Data.mask_by_extent for a child of a Points/Curve/Surface (no centroids): no bounding-box test, no orphan logic *)
Definition data_mask (o : obj) (a : assoc) (e : extent) (inv : bool) : res (option (list bool)) :=
  match a with
  | AVertex => Ok (Some (mask_by_extent (verts o) e inv))
  | ACell => match cells_kept (mask_by_extent (verts o) e inv) (cells o) with
             | Some c => Ok (Some c)
             | None => Err IndexError
             end
  | AObject => Ok None
  end.

(* ------------------------------------------------------------------ Grid2D.copy_from_extent, index part (inverse = False)
   sel = selected centroids as v_count rows of u_count booleans (row-major, as reshape((v_count, u_count)) gives) *)
Definition any_b (l : list bool) : bool := existsb (fun b => b) l.

Fixpoint col_any (rows : list (list bool)) (nu : nat) : list bool :=     (* np.any(sel, axis=0) *)
  match rows with
  | [] => repeat false nu
  | r :: rs => let rest := col_any rs nu in
               map (fun i => nth i r false || nth i rest false) (seq 0 nu)
  end.
Definition row_any (rows : list (list bool)) : list bool := map any_b rows.   (* np.any(sel, axis=1) *)

(* unrotated, undipped Grid2D, in half units so that everything is an integer: the centre of cell (i, j) is
   origin + ((i + 1/2) du, (j + 1/2) dv, 0); rows of the selection matrix = closed-box test of the centres *)
Definition grid_centre2 (ox oy oz du dv : Z) (i j : nat) : pt :=
  (2 * ox + (2 * Z.of_nat i + 1) * du, 2 * oy + (2 * Z.of_nat j + 1) * dv, 2 * oz)%Z.
Definition grid_centres2 (ox oy oz du dv : Z) (nu nv : nat) : list (list pt) :=
  map (fun j => map (fun i => grid_centre2 ox oy oz du dv i j) (seq 0 nu)) (seq 0 nv).
Definition grid_sel (e2 : extent) (centres : list (list pt)) : list (list bool) :=
  map (map (fun p => in_box (coords p) e2)) centres.

(* np.kron(v_ind, u_ind).flatten() on booleans *)
Definition kron (v u : list bool) : list bool := concat (map (fun b => map (fun c => b && c) u) v).

(* np.argmax of a boolean vector: first True, 0 when there is none *)
Fixpoint argmax_b (l : list bool) : nat :=
  match l with [] => 0 | b :: r => if b then 0 else if any_b r then S (argmax_b r) else 0 end.

Record subgrid := { sg_u0 : nat; sg_v0 : nat; sg_nu : nat; sg_nv : nat; sg_mask : list bool }.

(* repaired code (fixes/C13-grid-subgrid-gap.patch): every index between the first and the last selected one is selected too *)
Fixpoint fill_after (l : list bool) : list bool :=
  match l with [] => [] | b :: r => (b || any_b r) :: fill_after r end.
Fixpoint fill_span (l : list bool) : list bool :=
  match l with [] => [] | b :: r => if b then true :: fill_after r else false :: fill_span r end.

(* [fill] = does the checked tree contain that repair (read off the source on every run) *)
Definition grid_select (fill : bool) (nu : nat) (sel : list (list bool)) : option subgrid :=
  let u_ind := if fill then fill_span (col_any sel nu) else col_any sel nu in
  let v_ind := if fill then fill_span (row_any sel) else row_any sel in
  let indices := kron v_ind u_ind in
  if any_b indices
  then Some {| sg_u0 := argmax_b u_ind; sg_v0 := argmax_b v_ind; sg_nu := count u_ind; sg_nv := count v_ind; sg_mask := indices |}
  else None.

(* values of the copy: those of the cells picked by the mask, then blanked where the *new* grid's cell centre is outside the
   box; new cell (a, b) sits on the centre of source cell (u0 + a, v0 + b) *)
Definition grid_copy_values (sel : list (list bool)) (g : subgrid) (v : vals) : vals :=
  let picked := select (sg_mask g) v in
  let inbox := concat (map (fun b => map (fun a => nth (sg_u0 g + a) (nth (sg_v0 g + b) sel []) false) (seq 0 (sg_nu g)))
                           (seq 0 (sg_nv g))) in
  fill_masked None inbox picked.

(* ------------------------------------------------------------------ comparison helpers for the correspondence files *)
Definition omask_eqb : option (list bool) -> option (list bool) -> bool := option_eqb (list_eqb Bool.eqb).

Definition rmask_eqb (a b : res (option (list bool))) : bool :=
  match a, b with
  | Ok x, Ok y => omask_eqb x y
  | Err x, Err y => err_eqb x y
  | _, _ => false
  end.

Definition copy_eqb (a : copy_result) (b : option (res osnap)) : bool :=
  match a, b with
  | CNone, None => true
  | CCopy o, Some (Ok s) => snap_eqb (snap_live o) s
  | CErr x, Some (Err y) => err_eqb x y
  | _, _ => false
  end.

(* groups: does the model's copy of one child agree with the observed one, and which children does the group copy keep *)
Definition child_agrees (o : obj) (e : extent) (inv : bool) (obs : option osnap) : bool :=
  match child_copy o e inv, obs with
  | Some c, Some s => snap_eqb (snap_live c) s
  | None, None => true
  | _, _ => false
  end.
Definition as_unit {A} (c : option A) : option unit := match c with Some _ => Some tt | None => None end.
Fixpoint kept_from (i : nat) (l : list (option unit)) : list nat :=
  match l with [] => [] | Some _ :: r => i :: kept_from (S i) r | None :: r => kept_from (S i) r end.
(* observed: None, or the indices (in the source's child order) of the children found in the copy, in the copy's order *)
Definition group_fail_agrees (cleanup : bool) (cs : list (res (option unit))) (e : err) (stray : bool) : bool :=
  match group_copy_run cleanup cs with GFail e' s => err_eqb e' e && Bool.eqb s stray | _ => false end.

Definition group_agrees (copies : list (option unit)) (obs : option (list nat)) : bool :=
  match group_copy_from_extent copies, obs with
  | None, None => true
  | Some _, Some idx => list_eqb Nat.eqb (kept_from 0 copies) idx
  | _, _ => false
  end.

(* the model, run on this object / extent / flag, yields exactly the observed mask, copy and data masks *)
Definition agree13 (o : obj) (e : extent) (inv : bool)
           (omask : res (option (list bool))) (ocopy : option (res osnap))
           (odata : list (assoc * res (option (list bool)))) : bool :=
  rmask_eqb (obj_mask o e inv) omask
  && copy_eqb (copy_from_extent o e inv) ocopy
  && forallb (fun ad => rmask_eqb (data_mask o (fst ad) e inv) (snd ad)) odata.

(* histories on one object: the extent read at any moment is the bounding box of the current vertices *)
Definition ext_eqb (a b : extent) : bool :=
  list_eqb (fun p q => Z.eqb (fst p) (fst q) && Z.eqb (snd p) (snd q)) a b.
Definition extent_agrees (o : obj) (obs : extent) : bool :=
  match obj_extent (verts o) with Ok bb => ext_eqb bb obs | Err _ => false end.
