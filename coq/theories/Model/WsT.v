(* Typed layer of the workspace / file model (C01, C02, C09: the entity-TYPE clauses).  Definitions only.

   Memory  = live entities (identifier, parent, kind, identifier of their entity type) + the workspace's type registry
             `Workspace._types` (identifier -> weak reference to the type object: its class and attributes).  A type object
             is ALIVE iff some live entity holds it (the driver holds no reference between operations and collects after
             each one); a registry entry whose object died stays as a dead entry until something sweeps it.
   File    = the Types container (one node per (class sub-container, identifier): HDF5 address, primitive type, name) and,
             for every stored entity, the address its `Type` hard link points to.

   Python transcribed:
     EntityType.find_or_create -> Workspace.find_type -> weakref_utils.get_clean_ref (a DEAD entry is deleted from the
       registry -- the file is not touched -- and None is returned) ; a live entry of the same class is returned as it is
       (the caller's attributes are ignored) ; otherwise cls(workspace, uid=...) -> register -> insert_once (RuntimeError
       when a live entry of another class holds the identifier)
     H5Writer.write_entity (an existing entity node is returned UNTOUCHED ; a new one gets `Type` = write_entity_type)
     H5Writer.write_entity_type (an existing node under Types/<class>/<id> is returned UNTOUCHED ; a new one gets the
       attributes of the type object)
     Workspace.remove_entity (children first, flat nodes deleted, then del entity ; collect() ;
       remove_none_referents(self._types, "Types") : every dead registry entry is deleted together with the nodes of that
       identifier in ALL three class sub-containers)
     parent.remove_children([e]) (no flat node deleted, nothing swept)
     Workspace.types (remove_none_referents(self._types, "Types"))
     EntityType.name setter -> update_attribute(type, "attributes") -> H5Writer.write_attributes (rewrites ALL attributes
       of the node Types/<class>/<id>, when present)
     close + open (types are not touched by close ; every reachable entity is loaded with the attributes of the object its
       `Type` link points to ; the new registry holds the types met while loading) *)
(* SCOPE / CONVENTIONS (audit 2: C1, C2, A11)
   * Driver convention for [RemoveWs]: the modelled call is `ws.remove_entity(ws.get_entity(u)[0])` -- the caller holds NO
     reference to the removed entity, so after `del entity; collect()` its type object is dead and the final
     remove_none_referents(self._types, "Types") deletes its node.  With the ordinary `x = ws.get_entity(u)[0];
     ws.remove_entity(x)` the caller's reference keeps x (and the type object x holds) alive: the type node and registry
     entry of THAT entity stay until the reference is dropped and something sweeps (ws.types, the next remove_entity); its
     children's types are swept either way.  That held form is the same as [RemoveWs] followed later by a sweep from the
     point of view of every theorem here (TInv, frames) except that the registry keeps one more live entry in between; it is
     not a separate operation of the model and the typed driver (tools/props/wstypes.py) never holds a reference.
   * [fents] is keyed by the entity identifier alone although the file has one flat container per kind (Groups / Objects /
     Data): entity identifiers are unique across kinds in the typed histories (the X model keeps the kind in the key).
   * [tattrs] = primitive type and name only; description, units, hidden, mapping, number_of_bins, color_map and value_map
     of a type are outside the model (write_attributes / write_color_map / write_value_map rewrite them on the same node).
   * close + open: the close-time walk save_entity(root, add_children=True) and the `self.groups` listing (which sweeps flat
     nodes of dead groups) are not modelled here -- they never touch a type node or a Type link; the X model covers them. *)
From GV Require Import Prelude.Base.

Inductive tkind := TG | TO | TD.       (* "Group types" / "Object types" / "Data types" = kind of the entity *)
Definition tkind_eqb (a b : tkind) : bool :=
  match a, b with TG, TG | TO, TO | TD, TD => true | _, _ => false end.
Definition tkey : Type := (tkind * N)%type.
Definition tkey_eqb (a b : tkey) : bool := tkind_eqb (fst a) (fst b) && N.eqb (snd a) (snd b).

Record tattrs := { tprim : N; tname : N }.       (* primitive type (0 = none, 1 = FLOAT, 2 = INTEGER), name token *)
Definition tattrs_eqb (a b : tattrs) : bool := N.eqb (tprim a) (tprim b) && N.eqb (tname a) (tname b).

Record ent := { eparent : N; ekind : tkind; etid : N }.
Record tnode := { taddr : N; tnattrs : tattrs }.

(* association lists keyed by N / by tkey *)
Fixpoint nget {V} (x : N) (m : list (N * V)) : option V :=
  match m with [] => None | (k, v) :: r => if N.eqb x k then Some v else nget x r end.
Fixpoint nset {V} (x : N) (v : V) (m : list (N * V)) : list (N * V) :=
  match m with
  | [] => [(x, v)]
  | (k, o) :: r => if N.eqb x k then (k, v) :: r else (k, o) :: nset x v r
  end.
Fixpoint tget (x : tkey) (m : list (tkey * tnode)) : option tnode :=
  match m with [] => None | (k, v) :: r => if tkey_eqb x k then Some v else tget x r end.
Fixpoint tset (x : tkey) (v : tnode) (m : list (tkey * tnode)) : list (tkey * tnode) :=
  match m with
  | [] => [(x, v)]
  | (k, o) :: r => if tkey_eqb x k then (k, v) :: r else (k, o) :: tset x v r
  end.
Definition memN (x : N) (l : list N) : bool := existsb (N.eqb x) l.

Record st := {
  ents   : list (N * ent);                 (* live entities, in creation / loading order *)
  reg    : list (N * (tkind * tattrs));    (* Workspace._types: live and dead-but-unswept entries *)
  ftypes : list (tkey * tnode);            (* the Types container *)
  fents  : list (N * N);                   (* stored entity nodes: identifier -> address of the `Type` link *)
  next   : N                               (* next free HDF5 address *)
}.

Definition root_id : N := 0%N.
Definition root_tid : N := 1%N.
Definition root_attrs : tattrs := {| tprim := 0; tname := 1 |}.
Definition init : st :=
  {| ents := [(root_id, {| eparent := root_id; ekind := TG; etid := root_tid |})];
     reg := [(root_tid, (TG, root_attrs))];
     ftypes := [((TG, root_tid), {| taddr := 1; tnattrs := root_attrs |})];
     fents := [(root_id, 1%N)];
     next := 2%N |}.

Inductive outcome := Done | Refused | Raised.

Inductive op :=
| Create (e : N) (k : tkind) (p : N) (tid prim name : N)   (* entity e of kind k under p with entity_type = {uid: tid, primitive, name} *)
| RemoveWs (e : N)                                          (* ws.remove_entity(e), no outside reference to e *)
| RemoveParent (e : N)                                      (* e.parent.remove_children([e]) *)
| ListTypes                                                 (* ws.types *)
| SetTypeName (e : N) (name : N)                            (* e.entity_type.name = name *)
| Reopen.

Definition can_hold (p c : tkind) : bool :=
  match p, c with TG, TG | TG, TO | TO, TD => true | _, _ => false end.

(* a type object is alive iff a live entity holds it *)
Definition alive (s : st) (tid : N) : bool := existsb (fun p => N.eqb (etid (snd p)) tid) (ents s).

(* remove_none_referents(self._types, "Types") *)
Definition dead_tids (s : st) : list N := map fst (filter (fun p => negb (alive s (fst p))) (reg s)).
Definition sweep (s : st) : st :=
  let dead := dead_tids s in
  {| ents := ents s;
     reg := filter (fun p => alive s (fst p)) (reg s);
     ftypes := filter (fun kn => negb (memN (snd (fst kn)) dead)) (ftypes s);
     fents := fents s; next := next s |}.

(* --- creation --- *)
Definition do_create (s : st) (e : N) (k : tkind) (p tid prim name : N) : st * outcome :=
  match nget e (ents s), nget p (ents s) with
  | None, Some pe =>
      if negb (can_hold (ekind pe) k) then (s, Refused) else
      (* find_or_create *)
      let a := {| tprim := prim; tname := name |} in
      let res : option (list (N * (tkind * tattrs))) :=
        match nget tid (reg s) with
        | Some (k', _) =>
            if alive s tid then (if tkind_eqb k' k then Some (reg s) else None)   (* shared as it is / RuntimeError *)
            else Some (nset tid (k, a) (reg s))                                    (* dead entry dropped, new type object *)
        | None => Some (reg s ++ [(tid, (k, a))])
        end in
      match res with
      | None => (s, Raised)
      | Some reg' =>
          let ta := match nget tid reg' with Some (_, x) => x | None => a end in
          (* write_entity_type *)
          let '(ft', addr, nx) :=
            match tget (k, tid) (ftypes s) with
            | Some n => (ftypes s, taddr n, next s)
            | None => (ftypes s ++ [((k, tid), {| taddr := next s; tnattrs := ta |})], next s, N.succ (next s))
            end in
          (* write_entity *)
          let fe' := match nget e (fents s) with Some _ => fents s | None => fents s ++ [(e, addr)] end in
          ({| ents := ents s ++ [(e, {| eparent := p; ekind := k; etid := tid |})];
              reg := reg'; ftypes := ft'; fents := fe'; next := nx |}, Done)
      end
  | _, _ => (s, Refused)
  end.

(* --- removals --- *)
(* identifiers of the subtree of e: e and, repeatedly, the entities whose parent is already in *)
Fixpoint subtree (fuel : nat) (l : list (N * ent)) (acc : list N) : list N :=
  match fuel with
  | O => acc
  | S f => subtree f l (acc ++ map fst (filter (fun p => memN (eparent (snd p)) acc && negb (memN (fst p) acc)) l))
  end.
Definition sub_ids (s : st) (e : N) : list N := subtree (length (ents s)) (ents s) [e].

Definition do_remove_ws (s : st) (e : N) : st * outcome :=
  match nget e (ents s) with
  | Some _ =>
      if N.eqb e root_id then (s, Refused) else
      let sub := sub_ids s e in
      let s1 := {| ents := filter (fun p => negb (memN (fst p) sub)) (ents s); reg := reg s; ftypes := ftypes s;
                   fents := filter (fun p => negb (memN (fst p) sub)) (fents s); next := next s |} in
      (sweep s1, Done)
  | None => (s, Refused)
  end.

Definition do_remove_parent (s : st) (e : N) : st * outcome :=
  match nget e (ents s) with
  | Some _ =>
      if N.eqb e root_id then (s, Refused) else
      let sub := sub_ids s e in
      ({| ents := filter (fun p => negb (memN (fst p) sub)) (ents s); reg := reg s; ftypes := ftypes s;
          fents := fents s; next := next s |}, Done)
  | None => (s, Refused)
  end.

(* --- type attribute --- *)
Definition do_set_tname (s : st) (e : N) (name : N) : st * outcome :=
  match nget e (ents s) with
  | Some en =>
      match nget (etid en) (reg s) with
      | Some (k, a) =>
          let a' := {| tprim := tprim a; tname := name |} in
          ({| ents := ents s; reg := nset (etid en) (k, a') (reg s);
              ftypes := match tget (k, etid en) (ftypes s) with
                        | Some n => tset (k, etid en) {| taddr := taddr n; tnattrs := a' |} (ftypes s)
                        | None => ftypes s
                        end;
              fents := fents s; next := next s |}, Done)
      | None => (s, Refused)
      end
  | None => (s, Refused)
  end.

(* --- close + open --- *)
Definition node_at (a : N) (ft : list (tkey * tnode)) : option (tkey * tnode) :=
  find (fun kn => N.eqb (taddr (snd kn)) a) ft.

Fixpoint load (s : st) (l : list (N * ent)) (acc : list (N * ent) * list (N * (tkind * tattrs)))
  : option (list (N * ent) * list (N * (tkind * tattrs))) :=
  match l with
  | [] => Some acc
  | (e, en) :: r =>
      match nget e (fents s) with
      | Some a =>
          match node_at a (ftypes s) with
          | Some ((k', tid'), n) =>
              let '(es, rg) := acc in
              let rg' := match nget tid' rg with Some _ => rg | None => rg ++ [(tid', (k', tnattrs n))] end in
              load s r (es ++ [(e, {| eparent := eparent en; ekind := ekind en; etid := tid' |})], rg')
          | None => None
          end
      | None => None
      end
  end.

Definition do_reopen (s : st) : st * outcome :=
  match load s (ents s) ([], []) with
  | Some (es, rg) => ({| ents := es; reg := rg; ftypes := ftypes s; fents := fents s; next := next s |}, Done)
  | None => (s, Raised)
  end.

Definition step (s : st) (o : op) : st * outcome :=
  match o with
  | Create e k p tid prim name => do_create s e k p tid prim name
  | RemoveWs e => do_remove_ws s e
  | RemoveParent e => do_remove_parent s e
  | ListTypes => (sweep s, Done)
  | SetTypeName e name => do_set_tname s e name
  | Reopen => do_reopen s
  end.

Definition run (ops : list op) (s : st) : st := fold_left (fun s o => fst (step s o)) ops s.

(* ---------------- observations (what the driver dumps after every operation) ---------------- *)
(* per live entity: identifier, parent, kind, type identifier, primitive type and name of its live type object *)
Definition mem_row : Type := (N * N * tkind * N * N * N)%type.
Definition mem_view (s : st) : list mem_row :=
  map (fun p => let '(e, en) := p in
                let a := match nget (etid en) (reg s) with Some (_, a) => a | None => {| tprim := 0; tname := 0 |} end in
                (e, eparent en, ekind en, etid en, tprim a, tname a)) (ents s).
(* registry: identifier, alive? *)
Definition reg_view (s : st) : list (N * bool) := map (fun p => (fst p, alive s (fst p))) (reg s).
(* Types container: class, identifier, primitive type, name *)
Definition types_view (s : st) : list (tkind * N * N * N) :=
  map (fun kn => (fst (fst kn), snd (fst kn), tprim (tnattrs (snd kn)), tname (tnattrs (snd kn)))) (ftypes s).
(* per live entity node: is its `Type` link the very object stored under Types/<class>/<id of the live type>,
   and the identifier / primitive type / name read through the link *)
Definition link_view (s : st) : list (N * bool * option (N * N * N)) :=
  map (fun p => let '(e, en) := p in
                match nget e (fents s) with
                | Some a =>
                    (e, match tget (ekind en, etid en) (ftypes s) with Some n => N.eqb (taddr n) a | None => false end,
                     match node_at a (ftypes s) with
                     | Some (k, n) => Some (snd k, tprim (tnattrs n), tname (tnattrs n))
                     | None => None
                     end)
                | None => (e, false, None)
                end) (ents s).
